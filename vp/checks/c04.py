"""C04 - built-in mechanisms implement their published kinetics and currents; renaming only renames."""
from __future__ import annotations

import keyword

import numpy as np
from hypothesis import strategies as st

from vp import core
from vp.ref import mech as R2
from vp.checks.c03 import _make, _prefixed, _v_strategy, STATE, NICE_VT, _log_uniform  # shared strategies

ID = "C04"
RULE = (
    "Hypothesis draws (mechanism, name/rename route, parameters, up to 64 points (v, states)); v in [-150,100] from "
    "floats plus the singularity-directed strategy. Per point and gate: rate functions vs the published formulas (R2); "
    "per point: compute_current vs the published current equation and one update_states step (dt 0.025 and 1) vs the exact exponential update with the published rates; per case: default parameter/state dictionaries vs "
    "the documented defaults, renamed vs original mechanism (identical numbers under renamed keys, only documented "
    "global keys shared); a tenth of the cases simulate original and renamed channel in a compartment. "
    "Distinct non-trivial key = (mechanism, function, 5 mV voltage bucket, default-or-drawn parameters); every "
    "evaluation is non-trivial; coverage of the 5 mV buckets of [-150,100] is reported."
)
ASSUMPTIONS = [
    "reference formulas transcribed by hand from Hodgkin&Huxley 1952 (NEURON hh.mod form, 6.3 C), Pospischil et al. 2008, "
    "Abbott&Marder 1998 into vp/ref/mech.py; the sandbox is sealed so the transcription cannot be re-checked against the papers",
    "rate acceptance: |a-a_ref| <= 1e-7|a_ref| + 1e-6(a_ref+b_ref) (an error that moves neither x_inf nor tau by 1e-6); "
    "x_inf 1e-7 absolute, tau 1e-7 relative; currents 1e-9 of the sum of |terms|",
    "documented defaults = the defaults of the pinned tree (docstrings/tutorials give no other table)",
    "fixed finding N6 (CaT tau_u frozen where an exponential argument exceeded 20): a tau_u that again equals the published "
    "formula with both exponentials capped at exp(20) is reported under its own clause",
]
TECHNIQUE = "property-based testing (Hypothesis) against hand-transcribed published formulas (reference model) + metamorphic renaming"
LEVEL_TEXT = (
    "Every rate function, steady state, time constant, current equation and default of every built-in mechanism is compared "
    "with an independent NumPy transcription of the published equations on generated voltages/states/parameters, and renaming "
    "is checked metamorphically. Conformance is relative to the transcription (trusted base)."
)
CHANNELS = ["HH", "Na", "K", "Km", "CaL", "CaT", "Leak"]
SYNAPSES = ["IonotropicSynapse", "TestSynapse", "TanhRateSynapse"]
RESERVED = {"v", "i", "radius", "length", "axial_resistivity", "capacitance", "eNa", "eK", "eCa", "vt", "x", "y", "z"}


def budget(tier):
    return 120 if tier == "quick" else 1500


NAMES = st.one_of(
    st.sampled_from(["Km", "K", "Na", "N", "HH2", "g", "CaT_fast", "Leak_2", "syn", "HH_g", "Kv", "A_b_c"]),
    st.from_regex(r"[A-Za-z][A-Za-z0-9]{0,5}", fullmatch=True),
).filter(lambda n: n not in RESERVED and not keyword.iskeyword(n))


@st.composite
def _params(draw, mech, default=False):
    table = R2.CHANNELS.get(mech) or R2.SYNAPSES[mech]
    p = dict(table["params"])
    if default:
        return p
    for k in list(p):
        if k.startswith("g"):
            p[k] = draw(_log_uniform(max(p[k], 1e-12) * 1e-2, max(p[k], 1e-12) * 1e2))
        elif k.startswith("e"):
            p[k] = draw(st.floats(p[k] - 30.0, p[k] + 30.0))
    if "vt" in p:
        p["vt"] = draw(st.one_of(st.sampled_from(NICE_VT), st.floats(-75.0, -45.0)))
    if "taumax" in p:
        p["taumax"] = draw(st.floats(200.0, 8000.0))
    if "vx" in p:
        p["vx"] = draw(st.floats(-10.0, 10.0))
    if "k_minus" in p:
        p["k_minus"] = draw(_log_uniform(0.005, 0.5))
    if "x_offset" in p:
        p["x_offset"] = draw(st.floats(-90.0, -30.0))
    if "slope" in p:
        p["slope"] = draw(_log_uniform(0.01, 2.0))
    return p


@st.composite
def _spec(draw, tier):
    mech = draw(st.sampled_from(CHANNELS + SYNAPSES))
    route = draw(st.sampled_from(["plain", "ctor", "change_name", "change_twice"]))
    name = None if route == "plain" else draw(NAMES)
    if name == mech:
        route, name = "plain", None
    default = draw(st.booleans())
    params = draw(_params(mech, default))
    table = R2.CHANNELS.get(mech) or R2.SYNAPSES[mech]
    ns = len(table["states"])
    vs = _v_strategy(mech, params).filter(lambda v: -150.0 <= v <= 100.0)
    n = draw(st.integers(1, 64))
    pts = draw(st.lists(st.tuples(vs, st.floats(-150.0, 100.0), *[STATE] * ns), min_size=n, max_size=n))
    sim = mech in CHANNELS and name is not None and draw(st.integers(0, 9)) == 0
    return dict(mech=mech, route=route, name=name, default=default, params=params,
                points=[list(p) for p in pts], sim=sim)


def strategy(tier):
    return _spec(tier)


def size(spec):
    return (len(spec["points"]), int(spec["sim"]), core.spec_size(spec))


def _construct(mech, route, name):
    import jaxley.channels as jc
    import jaxley.synapses as js

    cls = getattr(jc, mech, None) or getattr(js, mech)
    if route == "plain":
        return cls()
    if route == "ctor":
        return cls(name)
    if route == "change_name":
        return cls().change_name(name)
    return cls().change_name("tmp_name").change_name(name)


def _rate_ok(a, b, ar, br):
    tot = ar + br
    return (np.abs(a - ar) <= 1e-7 * np.abs(ar) + 1e-6 * tot) & (np.abs(b - br) <= 1e-7 * np.abs(br) + 1e-6 * tot)


def judge(spec, tier="quick"):
    import jax.numpy as jnp

    out = core.Outcome()
    mech, name, route = spec["mech"], spec["name"], spec["route"]
    is_syn = mech in SYNAPSES
    table = R2.SYNAPSES[mech] if is_syn else R2.CHANNELS[mech]
    obj, err = core.call(_construct, mech, route, name)
    if err:
        out.violate("raises", f"constructing {mech} via {route}({name!r}) raised {err.short()}", etype=err.etype, frame=err.frame)
        return out
    pre = name or mech
    globals_ = table.get("globals", [])
    key = (lambda k: k if k in globals_ else f"{pre}_{k}")
    pdict = obj.synapse_params if is_syn else obj.channel_params
    sdict = obj.synapse_states if is_syn else obj.channel_states
    # ---- defaults and key names ------------------------------------------------------
    out.evals += 1
    want_p = {key(k): v for k, v in table["params"].items()}
    want_s = {f"{pre}_{k}": v for k, v in table["states"].items()}
    if dict(pdict) != want_p:
        out.violate("defaults", f"{mech} via {route}({name!r}): parameter dict {dict(pdict)} != documented {want_p}")
    if dict(sdict) != want_s:
        out.violate("defaults", f"{mech} via {route}({name!r}): state dict {dict(sdict)} != documented {want_s}")
    if getattr(obj, "_name", None) != pre or obj.name != pre:
        out.violate("rename", f"{mech} via {route}({name!r}): name is {obj.name!r}")
    if name is not None:
        orig = _construct(mech, "plain", None)
        op = orig.synapse_params if is_syn else orig.channel_params
        os_ = orig.synapse_states if is_syn else orig.channel_states
        shared = (set(op) | set(os_)) & (set(pdict) | set(sdict))
        if not shared <= set(globals_):
            out.violate("rename", f"renamed {mech}->{name}: shares keys {sorted(shared - set(globals_))} with the original")
    if out.violations:
        return out
    # ---- numbers ---------------------------------------------------------------------
    pts = np.asarray(spec["points"], float)
    v, vpost, S = pts[:, 0], pts[:, 1], pts[:, 2:]
    n = len(v)
    P = {k: np.full(n, float(val)) for k, val in spec["params"].items()}
    snames = list(table["states"])
    Sd = {k: S[:, i] for i, k in enumerate(snames)}
    pj = {key(k): jnp.asarray(a) for k, a in P.items()}
    sj = {f"{pre}_{k}": jnp.asarray(a) for k, a in Sd.items()}
    pclass = "default" if spec["default"] else "drawn"

    def nt(fn):
        for b in np.unique(np.floor(v / 5.0).astype(int)):
            out.nontrivial_keys.append(f"{mech}|{fn}|{b}|{pclass}")

    if not is_syn:
        for g, gfun in table["gates"].items():
            args = [jnp.asarray(P[a]) for a in table["gate_args"][g]]
            res, err = core.call(getattr(obj, f"{g}_gate"), jnp.asarray(v), *args)
            if err:
                out.violate("raises", f"{mech}.{g}_gate raised {err.short()}", etype=err.etype, frame=err.frame)
                continue
            a, b = np.asarray(res[0], float), np.asarray(res[1], float)
            kind, ar, br = gfun(v, P)
            out.evals += n
            nt(f"{g}_gate")
            if not (np.isfinite(a).all() and np.isfinite(b).all()):
                i = int(np.argmax(~(np.isfinite(a) & np.isfinite(b))))
                out.violate(f"rate:{mech}.{g}", f"{mech}.{g}_gate(v={v[i]!r}) = ({a[i]!r}, {b[i]!r}) is not finite")
                continue
            if kind == "ab":
                ok = _rate_ok(a, b, ar, br)
                if not ok.all():
                    i = int(np.argmax(~ok))
                    out.violate(f"rate:{mech}.{g}", f"{mech}.{g}_gate(v={v[i]!r}, {({k: P[k][i] for k in table['gate_args'][g]})}) = "
                                f"(alpha={a[i]!r}, beta={b[i]!r}); published (alpha={ar[i]!r}, beta={br[i]!r})")
            else:
                ok_inf = np.abs(a - ar) <= 1e-7
                ok_tau = np.abs(b - br) <= 1e-7 * np.abs(br)
                if not ok_inf.all():
                    i = int(np.argmax(~ok_inf))
                    out.violate(f"rate:{mech}.{g}", f"{mech}.{g}_gate(v={v[i]!r}): x_inf={a[i]!r}, published {ar[i]!r}")
                if not ok_tau.all():
                    bad = ~ok_tau
                    if mech == "CaT":
                        # region of the (repaired) finding N6: an exponential argument of tau_u exceeds 20
                        w = v + P["vx"]
                        sat = gfun(v, P, saturate_at=20.0)[2]
                        n6 = bad & (w > -20.0) & (np.abs(b - sat) <= 1e-7 * np.abs(sat))
                        if n6.any():
                            i = int(np.argmax(n6))
                            out.violate("rate:CaT.u:tau-clipped", f"CaT.u_gate(v={v[i]!r}, vx={P['vx'][i]!r}): tau_u={b[i]!r}, published {br[i]!r} "
                                        f"(equals the formula with exponentials capped at exp(20))", finding="N6")
                        bad = bad & ~n6
                    if bad.any():
                        i = int(np.argmax(bad))
                        out.violate(f"rate:{mech}.{g}", f"{mech}.{g}_gate(v={v[i]!r}): tau={b[i]!r}, published {br[i]!r}")
        res, err = core.call(obj.compute_current, sj, jnp.asarray(v), pj)
        ref = table["current"](Sd, v, P)
        terms = np.abs(ref) + sum(np.abs(P[k]) * 0 for k in P)
        scale = np.maximum(np.abs(ref), 1e-300)
        # magnitude of the individual terms g*(v-E)
        mag = np.zeros(n)
        for gk in [k for k in P if k.startswith("g")]:
            mag += np.abs(P[gk]) * (np.abs(v) + 150.0)
    else:
        res, err = core.call(obj.compute_current, sj, jnp.asarray(v), jnp.asarray(vpost), pj)
        ref = R2.syn_current(mech, Sd, v, vpost, P)
        mag = np.abs(P.get("gS", P.get("gC"))) * (np.abs(vpost) + 100.0)
    if err:
        out.violate("raises", f"{mech}.compute_current raised {err.short()}", etype=err.etype, frame=err.frame)
    else:
        cur = np.asarray(res, float).reshape(-1)
        out.evals += n
        nt("current")
        if cur.shape != (n,):
            out.violate("current", f"{mech}.compute_current returned shape {cur.shape} for {n} points")
        else:
            with np.errstate(invalid="ignore"):
                bad = ~(np.abs(cur - ref) <= 1e-9 * mag + 1e-300)
            if bad.any():
                i = int(np.argmax(bad))
                out.violate(f"current:{mech}", f"{mech}.compute_current(v={v[i]!r}, states={({k: Sd[k][i] for k in Sd})}, "
                            f"params={({k: P[k][i] for k in P})}) = {cur[i]!r}; published {ref[i]!r}")
    if not is_syn and snames and not out.violations:
        # the kinetics actually integrated: one update_states step against the published rates (exact exponential)
        pjx = dict(pj)
        for k in ("radius", "length", "axial_resistivity", "capacitance"):
            pjx[k] = jnp.ones(n)
        for dt in (0.025, 1.0):
            res, err = core.call(obj.update_states, sj, dt, jnp.asarray(v), pjx)
            if err:
                out.violate("raises", f"{mech}.update_states raised {err.short()}", etype=err.etype, frame=err.frame)
                break
            for g, gfun in table["gates"].items():
                kind, ar, br = gfun(v, P)
                xr, tr = R2.steady_tau(kind, ar, br)
                want = R2.exp_update(Sd[g], dt, xr, tr)
                got = np.asarray(res.get(f"{pre}_{g}", np.full(n, np.nan)), float)
                out.evals += n
                nt(f"update:{g}")
                bad = ~(np.abs(got - want) <= 1e-5)
                if bad.any():
                    i = int(np.argmax(bad))
                    out.violate(f"update:{mech}.{g}", f"{mech}.update_states(v={v[i]!r}, {g}={Sd[g][i]!r}, dt={dt}, params={({k: P[k][i] for k in P})}) = {got[i]!r}; "
                                f"exact update with the published rates {want[i]!r}")
                    break
    if is_syn and snames:
        # synaptic state update against Abbott & Marder (the rate is not public: compare one update)
        dt = 0.025
        res, err = core.call(obj.update_states, sj, dt, jnp.asarray(v), jnp.asarray(vpost), pj)
        if err:
            out.violate("raises", f"{mech}.update_states raised {err.short()}", etype=err.etype, frame=err.frame)
        else:
            refu = R2.syn_update(mech, Sd, dt, v, P)
            for k in snames:
                got = np.asarray(res.get(f"{pre}_{k}", np.full(n, np.nan)), float)
                out.evals += n
                bad = ~(np.abs(got - refu[k]) <= 1e-9)
                if bad.any():
                    i = int(np.argmax(bad))
                    out.violate(f"rate:{mech}.{k}", f"{mech}.update_states(v_pre={v[i]!r}, s={Sd[k][i]!r}, dt={dt}) = {got[i]!r}; Abbott&Marder {refu[k][i]!r}")
    # ---- renamed and original simulate identically -----------------------------------
    if spec["sim"] and not out.violations:
        res, err = core.call(_simulate_pair, spec)
        if err:
            out.violate("raises", f"simulating {mech} renamed {name!r} raised {err.short()}", etype=err.etype, frame=err.frame)
        else:
            a, b = res
            out.evals += 1
            out.classes.append("sim-renamed")
            if a.shape != b.shape or not np.allclose(a, b, rtol=0, atol=1e-12, equal_nan=False):
                out.violate("rename-sim", f"{mech} renamed to {name!r} simulates differently: max diff {np.max(np.abs(a - b)) if a.shape == b.shape else 'shape'}")
    out.classes.append(f"{mech}:{route}")
    return out


def _simulate_pair(spec):
    import jax.numpy as jnp
    import jaxley as jx

    outs = []
    mech = spec["mech"]
    table = R2.CHANNELS[mech]
    for route, name in (("plain", None), (spec["route"], spec["name"])):
        comp = jx.Compartment()
        ch = _construct(mech, route, name)
        comp.insert(ch)
        pre = name or mech
        for k, val in spec["params"].items():
            comp.set(k if k in table["globals"] else f"{pre}_{k}", float(val))
        for i, k in enumerate(table["states"]):
            comp.set(f"{pre}_{k}", float(spec["points"][0][2 + i]))
        comp.set("v", float(np.clip(spec["points"][0][0], -90, -30)))
        comp.stimulate(jnp.asarray([0.002] * 8), verbose=False)
        comp.record("v", verbose=False)
        for k in table["states"]:
            comp.record(f"{pre}_{k}", verbose=False)
        outs.append(np.asarray(jx.integrate(comp, delta_t=0.025), float))
    return outs


def _n6(spec, v):
    return v.get("finding") == "N6"


PREDICATES = {"cat_tau_u_clipped_exponential": _n6}
