"""Morphology strategies. A morphology spec is JSON:

  {"kind": "compartment"|"branch"|"cell"|"network",
   "cells": [{"parents": [-1, 0, ...], "ncomp": [n_b, ...]}, ...],
   "radius": [...], "length": [...], "axial_resistivity": [...], "capacitance": [...], "v": [...]}

with one entry per compartment (network-wide order: cell, branch, compartment).
"""
from __future__ import annotations

import numpy as np
from hypothesis import strategies as st

def fl(lo, hi):
    """Finite floats without subnormals (XLA flushes denormals to zero, NumPy does not)."""
    return st.floats(lo, hi, allow_nan=False, allow_infinity=False, allow_subnormal=False)


DEFAULTS = dict(radius=1.0, length=10.0, axial_resistivity=5000.0, capacitance=1.0, v=-70.0)
RANGES = dict(
    radius=(0.1, 20.0), length=(0.5, 500.0), axial_resistivity=(10.0, 2e4), capacitance=(0.1, 5.0)
)


# narrower geometry for multi-step simulations with active channels and nA-scale stimuli:
# keeps voltages in a range where the reference kinetics (unclipped exponentials) stay finite
RANGES_DYN = dict(
    radius=(0.5, 10.0), length=(5.0, 200.0), axial_resistivity=(50.0, 5000.0), capacitance=(0.5, 2.0)
)


def log_uniform(lo, hi):
    return fl(np.log10(lo), np.log10(hi)).map(lambda e: float(10.0**e))


@st.composite
def parents_vec(draw, nb):
    shape = draw(st.sampled_from(["free", "free", "free", "crossed", "chain", "star", "binary", "comb"]))
    if nb == 1:
        return [-1]
    if shape == "chain":
        return [-1] + list(range(nb - 1))
    if shape == "star":
        return [-1] + [0] * (nb - 1)
    if shape == "binary":
        return [-1] + [(b - 1) // 2 for b in range(1, nb)]
    if shape == "comb":
        # a spine 0-1-3-5.. with a side branch at every spine node
        return [-1] + [max(0, b - 2 + (b % 2)) if b > 1 else 0 for b in range(1, nb)]
    if shape == "crossed" and nb >= 5:
        # children of a later-numbered branch are listed BEFORE those of an earlier-numbered one
        # (parent indices do not first appear in ascending order), then a free continuation
        return [-1, 0, 0, 2, 1] + [draw(st.integers(0, b - 1)) for b in range(5, nb)]
    return [-1] + [draw(st.integers(0, b - 1)) for b in range(1, nb)]


@st.composite
def cell_struct(draw, max_branches, max_ncomp):
    nb = draw(st.integers(1, max_branches))
    parents = draw(parents_vec(nb))
    mode = draw(st.sampled_from(["equal", "free", "free"]))
    if mode == "equal":
        n = draw(st.integers(1, max_ncomp))
        ncomp = [n] * nb
    else:
        ncomp = [draw(st.integers(1, max_ncomp)) for _ in range(nb)]
    return {"parents": parents, "ncomp": ncomp}


def n_compartments(cells):
    return int(sum(sum(c["ncomp"]) for c in cells))


@st.composite
def comp_values(draw, cells, key, mode=None, ranges=None):
    """Per-compartment values of one parameter: uniform / per branch / per compartment."""
    N = n_compartments(cells)
    default = DEFAULTS[key]
    if key == "v":
        one = fl(-100.0, 40.0)
    else:
        one = log_uniform(*(ranges or RANGES)[key])
    mode = mode or draw(st.sampled_from(["default", "uniform", "branch", "comp", "comp"]))
    if mode == "default":
        return [default] * N
    if mode == "uniform":
        return [draw(one)] * N
    vals = []
    for c in cells:
        for n in c["ncomp"]:
            if mode == "branch":
                vals += [draw(one)] * n
            else:
                vals += [draw(one) for _ in range(n)]
    return vals


@st.composite
def morphology(draw, tier="quick", kinds=("compartment", "branch", "cell", "cell", "network"),
               max_branches=None, max_ncomp=None, max_cells=None, with_v=True, ranges=None):
    kind = draw(st.sampled_from(list(kinds)))
    mb = max_branches or (8 if tier == "quick" else 12)
    mn = max_ncomp or (4 if tier == "quick" else 8)
    mc = max_cells or (3 if tier == "quick" else 4)
    if kind == "compartment":
        cells = [{"parents": [-1], "ncomp": [1]}]
    elif kind == "branch":
        cells = [{"parents": [-1], "ncomp": [draw(st.integers(1, mn))]}]
    elif kind == "cell":
        cells = [draw(cell_struct(mb, mn))]
    else:
        nc = draw(st.integers(2, mc))
        flavour = draw(st.sampled_from(["mixed", "unbranched", "clones", "equal-ncomp"]))
        if flavour == "unbranched":
            cells = [{"parents": [-1], "ncomp": [draw(st.integers(1, mn))]} for _ in range(nc)]
        elif flavour == "clones":
            # stone/thomas refuse networks whose cells differ in their per-level maximum
            # compartment count; clones (with their own parameters) are always accepted
            one = draw(cell_struct(max(1, mb // 2), mn))
            cells = [dict(one) for _ in range(nc)]
        elif flavour == "equal-ncomp":
            n = draw(st.integers(1, mn))
            cells = []
            for _ in range(nc):
                nb = draw(st.integers(1, max(1, mb // 2)))
                cells.append({"parents": draw(parents_vec(nb)), "ncomp": [n] * nb})
        else:
            cells = [draw(cell_struct(max(1, mb // 2), mn)) for _ in range(nc)]
    spec = {"kind": kind, "cells": cells}
    for key in ("radius", "length", "axial_resistivity", "capacitance"):
        spec[key] = draw(comp_values(cells, key, ranges=ranges))
    if with_v:
        spec["v"] = draw(comp_values(cells, "v"))
    return spec


# ------------------------------------------------------------------------------------------
# structural helpers shared by oracles
# ------------------------------------------------------------------------------------------


def global_structure(spec):
    """Network-wide (parents, ncomps) with branch indices offset per cell."""
    parents, ncomps = [], []
    off = 0
    for c in spec["cells"]:
        for p in c["parents"]:
            parents.append(-1 if p < 0 else p + off)
        ncomps += list(c["ncomp"])
        off += len(c["parents"])
    return parents, ncomps


def rows(spec):
    """(cell, global branch, global comp) for every compartment."""
    out = []
    gb = gc = 0
    for ci, c in enumerate(spec["cells"]):
        for n in c["ncomp"]:
            for _ in range(n):
                out.append((ci, gb, gc))
                gc += 1
            gb += 1
    return out


def levels(parents):
    lv = []
    for b, p in enumerate(parents):
        lv.append(0 if p < 0 else lv[p] + 1)
    return lv


def has_f1_shape(cell):
    """A branch that has children has fewer compartments than another branch of its level."""
    par, nc = cell["parents"], cell["ncomp"]
    lv = levels(par)
    has_child = set(p for p in par if p >= 0)
    for b in has_child:
        if any(lv[o] == lv[b] and nc[o] > nc[b] for o in range(len(par))):
            return True
    return False


def structure_classes(spec):
    cls = [spec["kind"]]
    cells = spec["cells"]
    if any(has_f1_shape(c) for c in cells):
        cls.append("F1-shape")
    if spec["kind"] == "network" and all(len(c["parents"]) == 1 for c in cells):
        if len({c["ncomp"][0] for c in cells}) > 1:
            cls.append("unbranched-net-unequal-ncomp")
    nbp = sum(len(set(p for p in c["parents"] if p >= 0)) for c in cells)
    if nbp:
        cls.append("branched")
    if len({n for c in cells for n in c["ncomp"]}) > 1:
        cls.append("heterogeneous-ncomp")
    for c in cells:
        firsts = []
        for p in c["parents"][1:]:
            if p not in firsts:
                firsts.append(p)
        if firsts != sorted(firsts):
            cls.append("parents first appear out of order")
            break
    return cls


def is_nontrivial_structure(spec):
    cells = spec["cells"]
    nbp = sum(len(set(p for p in c["parents"] if p >= 0)) for c in cells)
    het = len({n for c in cells for n in c["ncomp"]}) > 1
    return (nbp >= 1 and het) or len(cells) >= 2
