"""Parser for /verif/KNOWN_FINDINGS.txt (read-only at run time).

Line formats
  open: property=C07 id=F6 predicate=<name> witness=<path relative to /verif> <what fails>
  fixed: property=C03 <commit> <what failed>
Lines starting with '#' and blank lines are ignored.
"""
import os
import re

from vp.core import VERIF_DIR


def load_known(path=None):
    path = path or os.path.join(VERIF_DIR, "KNOWN_FINDINGS.txt")
    out = {"open": [], "fixed": []}
    if not os.path.exists(path):
        return out
    for line in open(path):
        line = line.strip()
        if not line or line.startswith("#"):
            continue
        if line.startswith("open:"):
            m = re.match(
                r"open:\s+property=(\S+)\s+id=(\S+)\s+predicate=(\S+)\s+witness=(\S+)\s+(.*)", line
            )
            if not m:
                raise ValueError(f"malformed known-findings line: {line}")
            out["open"].append(
                dict(property=m.group(1), id=m.group(2), predicate=m.group(3),
                     witness=m.group(4), text=m.group(5))
            )
        elif line.startswith("fixed:"):
            m = re.match(r"fixed:\s+property=(\S+)\s+(\S+)\s+(.*)", line)
            if not m:
                raise ValueError(f"malformed known-findings line: {line}")
            out["fixed"].append(dict(property=m.group(1), commit=m.group(2), text=m.group(3)))
        else:
            raise ValueError(f"malformed known-findings line: {line}")
    return out
