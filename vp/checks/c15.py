"""C15 - simulations converge to cable theory at the expected order."""
from __future__ import annotations

import numpy as np
from hypothesis import strategies as st

from vp.gen.morph import fl, log_uniform
from vp import core

ID = "C15"
RULE = (
    "Hypothesis draws a uniform passive cable (radius 0.5-5 um, Ra 50-500 ohm cm, g 1e-5..1e-3 S/cm2, cm 0.5-2 uF/cm2, length "
    "0.2-3 length constants, resting potential, stimulus amplitude), its realisation (one branch, or a chain of 2 or 4 branches "
    "joined at branch points, or two branches of unequal length with equally many compartments), a backend, and one of three experiments: (space) steady state under a constant current into the "
    "first compartment vs the sealed-cable Green's function on the ladder ncomp = n0*2^k, k=0..4; (time-RC) relaxation of a "
    "single compartment vs E + (V0-E)exp(-t/tau) on dt = dt0/2^k for bwd_euler and crank_nicolson; (time-mode) decay of the first "
    "cosine eigenmode of a 16- or 32-compartment cable on the same dt ladder (discrete-space eigenvalue, so only the time error "
    "remains). Oracle: observed order log2(e_k/e_{k+1}) on the last two rungs within [1.6,2.6] (space, CN) or [0.8,1.3] "
    "(bwd_euler), the finest error below a bound, and absolute agreement of input resistance / time constant with theory (units). "
    "One evaluation per ladder. Non-trivial: L/lambda > 0.5 and all rungs above round-off; distinct = hash(parameters, experiment)."
)
ASSUMPTIONS = [
    "float64, CPU; closed forms of linear cable theory (vp/ref/analytic.py)",
    "orders are only evaluated while the error is above 1e-9 mV (round-off), otherwise the rung is skipped (counted inconclusive)",
    "a finite ladder shows the observed order on five rungs; it cannot prove convergence in the limit",
]
TECHNIQUE = "property-based testing (Hypothesis): analytic reference (cable theory) on generated refinement ladders; observed order of convergence"
LEVEL_TEXT = (
    "Generated cable parameters and refinement ladders in space and time are compared with closed-form cable theory; the observed "
    "convergence orders and absolute values pin the discretisation and every unit conversion."
)


def budget(tier):
    return 6 if tier == "quick" else 60


def wall_guard(tier):
    return 1500 if tier == "quick" else 7200


@st.composite
def _spec(draw, tier):
    return {
        "radius": draw(log_uniform(0.5, 5.0)), "ra": draw(log_uniform(50.0, 500.0)), "g": draw(log_uniform(1e-5, 1e-3)),
        "cm": draw(log_uniform(0.5, 2.0)), "L_over_lambda": draw(st.one_of(fl(0.2, 3.0), fl(0.6, 2.0))),
        "E": draw(fl(-80.0, -50.0)), "amp": draw(fl(0.02, 0.5)), "v0_offset": draw(fl(5.0, 25.0)),
        "n0": draw(st.sampled_from([2, 4])), "chain": draw(st.sampled_from([1, 1, 2, 4])),
        "experiment": draw(st.sampled_from(["space", "space", "time-rc", "time-mode"])),
        "backend": draw(st.sampled_from(["jaxley.stone", "jaxley.thomas", "jax.sparse"])),
        "T_over_tau": draw(fl(0.2, 1.0)), "nmode": draw(st.sampled_from([16, 32])),
        # space experiment only: the cable may be cut into two branches of UNEQUAL length with the same number of
        # compartments each (compartments of different length meet at the branch point)
        "split": draw(st.one_of(st.none(), st.none(), fl(0.2, 0.8))),
    }


def strategy(tier):
    return _spec(tier)


def size(spec):
    return (core.spec_size(spec),)


def cable(spec, n, chain=1, v=None, split=None):
    import jaxley as jx
    from jaxley.channels import Leak

    lam = lam_um(spec)
    L = spec["L_over_lambda"] * lam
    comp = jx.Compartment()
    if split is not None and n % 2 == 0:
        br = jx.Branch([comp] * (n // 2))
        m = jx.Cell([br, br], parents=[-1, 0])
        h = np.concatenate([np.full(n // 2, split * L / (n // 2)), np.full(n // 2, (1 - split) * L / (n // 2))])
        m.set("length", h)
    elif chain == 1 or n % chain != 0 or n // chain < 1:
        m = jx.Branch([comp] * n)
        m.set("length", L / n)
    else:
        br = jx.Branch([comp] * (n // chain))
        m = jx.Cell([br] * chain, parents=[-1] + list(range(chain - 1)))
        m.set("length", L / n)
    m.set("radius", spec["radius"])
    m.set("axial_resistivity", spec["ra"])
    m.set("capacitance", spec["cm"])
    m.insert(Leak())
    m.set("Leak_gLeak", spec["g"])
    m.set("Leak_eLeak", spec["E"])
    m.set("v", spec["E"] if v is None else v)
    return m, L


def lam_um(spec):
    return float(np.sqrt((spec["radius"] * 1e-4 / 2.0) / (spec["ra"] * spec["g"])) * 1e4)


def orders(errs):
    return [float(np.log2(errs[i] / errs[i + 1])) if errs[i + 1] > 0 else np.inf for i in range(len(errs) - 1)]


def judge(spec, tier="quick"):
    import jax.numpy as jnp
    import jaxley as jx
    from vp.ref import analytic as R4

    out = core.Outcome()
    lam = lam_um(spec)
    tau = spec["cm"] / spec["g"] * 1e-3  # ms
    exp = spec["experiment"]
    key = core.h(spec)
    out.classes.append(exp)
    out.classes.append(f"chain{spec['chain']}")
    if exp == "space" and spec.get("split") is not None:
        out.classes.append("unequal branches")
    nontriv = spec["L_over_lambda"] > 0.5

    def run(m, **kw):
        m.record("v", verbose=False)
        return np.asarray(jx.integrate(m, voltage_solver=spec["backend"], **kw), float)

    if exp == "space":
        errs, peak = [], None
        for k in range(5):
            n = spec["n0"] * 2**k
            m, L = cable(spec, n, spec["chain"], split=spec.get("split"))
            (m.select(nodes=[0]) if n > 1 else m).stimulate(spec["amp"] * jnp.ones(6), verbose=False)
            res, err = core.call(run, m, delta_t=1e7)
            if err:
                out.violate("raises", f"space ladder n={n} raised {err.short()}", etype=err.etype, frame=err.frame)
                return out
            h = m.nodes["length"].to_numpy(float)
            x = np.cumsum(h) - h / 2.0
            ref = R4.sealed_cable_green(x, x[0], L, lam, spec["radius"], spec["ra"], spec["amp"])
            got = res[:, -1] - spec["E"]
            errs.append(float(np.max(np.abs(got - ref))))
            peak = float(np.max(np.abs(ref)))
        out.evals += 1
        p = orders(errs)
        ok_round = errs[-1] > 1e-9
        if not ok_round:
            out.inconclusive += 1
        if nontriv and ok_round:
            out.nontrivial_keys.append(key)
        if ok_round and not all(1.6 <= q <= 2.6 for q in p[-2:]):
            out.violate("space-order", f"steady state vs Green's function, ncomp={[spec['n0'] * 2**k for k in range(5)]}: errors {errs} mV, "
                        f"orders {p} (expected 2); lambda={lam:.1f} um, L/lambda={spec['L_over_lambda']:.2f}, chain={spec['chain']}, split={spec.get('split')}, backend={spec['backend']}")
            return out
        if errs[-1] > 0.02 * peak * (spec["L_over_lambda"] / (spec["n0"] * 16)) ** 2 * 50 + 1e-9:
            out.violate("space-error", f"finest rung (ncomp={spec['n0'] * 16}) error {errs[-1]:.3e} mV for a response of {peak:.3e} mV: not converging to the "
                        f"Green's function (units?); errors {errs}")
        return out

    solvers = [("bwd_euler", (0.8, 1.3)), ("crank_nicolson", (1.6, 2.6))]
    T = spec["T_over_tau"] * tau
    if exp == "time-rc":
        v0 = spec["E"] + spec["v0_offset"]
        exact = spec["E"] + spec["v0_offset"] * np.exp(-T / tau)
        for solver, band in solvers:
            errs = []
            for k in range(5):
                nst = 8 * 2**k
                m, _ = cable(spec, 1, 1, v=v0)
                m.stimulate(jnp.zeros(nst), verbose=False)
                res, err = core.call(run, m, delta_t=T / nst, solver=solver)
                if err:
                    out.violate("raises", f"time ladder ({solver}) raised {err.short()}", etype=err.etype, frame=err.frame)
                    return out
                errs.append(abs(float(res[0, -1]) - exact))
            out.evals += 1
            p = orders(errs)
            if errs[-1] <= 1e-9:
                out.inconclusive += 1
                continue
            out.nontrivial_keys.append(key + solver)
            if not all(band[0] <= q <= band[1] for q in p[-2:]):
                out.violate(f"time-order:{solver}", f"RC relaxation, dt=T/{[8 * 2**k for k in range(5)]}, T={T:.3f} ms, tau={tau:.3f} ms: errors {errs} mV, orders {p}, expected within {band}")
                return out
            if errs[0] > spec["v0_offset"] * 0.2:
                out.violate(f"time-error:{solver}", f"RC relaxation: error {errs[0]:.3e} mV at the coarsest step - the time constant is not c/g = {tau:.3f} ms (units?)")
                return out
        return out
    # time-mode: the run lasts T_over_tau time constants OF THE MODE, tau/(1+mu), so that the finest
    # steps are in the asymptotic regime (1+mu) dt / tau << 1
    n = spec["nmode"]
    _, L0 = cable(spec, n, 1)
    decay_1tau = R4.discrete_mode_decay(tau, tau, lam, L0, n, 1)  # exp(-(1+mu))
    T = spec["T_over_tau"] * tau / (-np.log(decay_1tau))
    for solver, band in solvers:
        errs = []
        for k in range(5):
            nst = 8 * 2**k
            m, L = cable(spec, n, spec["chain"])
            x = (np.arange(n) + 0.5) * L / n
            m.set("v", spec["E"] + spec["v0_offset"] * np.cos(np.pi * x / L))
            (m.select(nodes=[0])).stimulate(jnp.zeros(nst), verbose=False)
            res, err = core.call(run, m, delta_t=T / nst, solver=solver)
            if err:
                out.violate("raises", f"mode ladder ({solver}) raised {err.short()}", etype=err.etype, frame=err.frame)
                return out
            exact = spec["E"] + spec["v0_offset"] * np.cos(np.pi * x / L) * R4.discrete_mode_decay(T, tau, lam, L, n, 1)
            errs.append(float(np.max(np.abs(res[:, -1] - exact))))
        out.evals += 1
        p = orders(errs)
        if errs[-1] <= 1e-9:
            out.inconclusive += 1
            continue
        if nontriv:
            out.nontrivial_keys.append(key + solver)
        if not all(band[0] <= q <= band[1] for q in p[-2:]):
            out.violate(f"time-order:{solver}", f"cosine eigenmode on {n} compartments (chain={spec['chain']}, {spec['backend']}), dt=T/{[8 * 2**k for k in range(5)]}: "
                        f"errors {errs} mV, orders {p}, expected within {band}")
            return out
    return out


PREDICATES = {}
