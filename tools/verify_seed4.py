"""Independent confirmation of a round-4 ("file-targeted, any property") seeded change.

usage: python tools/verify_seed4.py F03 [--round 5] [--tests] [--also C07,C19]
  1. copies /tmp/seed4_<F>/{patch.diff,demo.py,NOTE.md} to /verif/seeded/R4_<F>/ (if the source exists)
  2. clean scratch copy of /repo HEAD: demo must exit 0; with the patch applied it must exit 1
  3. with --tests: the 117 stable tests must pass with the patch applied
  4. runs the quick check of the property named on the first line of NOTE.md (PROPERTY: Cxx) and of
     every property listed with --also against the patched copy (VERIF_REPO)
Writes seeded/R4_<F>/meta.json.
"""
import json, os, re, shutil, subprocess, sys, tempfile, time

VERIF = os.path.dirname(os.path.dirname(os.path.abspath(__file__)))
fid = sys.argv[1]
rnd = sys.argv[sys.argv.index("--round") + 1] if "--round" in sys.argv else "4"
src = f"/tmp/seed{rnd}_{fid}"
dst = os.path.join(VERIF, "seeded", f"R{rnd}_{fid}")
os.makedirs(dst, exist_ok=True)
for f in ("patch.diff", "demo.py", "NOTE.md"):
    if os.path.exists(os.path.join(src, f)):
        shutil.copy(os.path.join(src, f), os.path.join(dst, f))
note = open(os.path.join(dst, "NOTE.md")).read()
cid = re.search(r"PROPERTY:\s*(C\d\d)", note).group(1)
also = sys.argv[sys.argv.index("--also") + 1].split(",") if "--also" in sys.argv else []
work = tempfile.mkdtemp(prefix=f"vseed4-{fid}-", dir="/dev/shm")
meta = {"property": cid, "round": int(rnd), "ran": []}
_old = {}
if os.path.exists(os.path.join(dst, "meta.json")):
    try:
        _old = json.load(open(os.path.join(dst, "meta.json")))
    except Exception:
        _old = {}
try:
    repo = os.path.join(work, "repo")
    subprocess.run(["rsync", "-a", "--exclude", ".git", "/repo/", repo + "/"], check=True)
    shutil.copy(os.path.join(dst, "demo.py"), os.path.join(repo, "demo.py"))
    env = dict(os.environ, PYTHONPATH=repo, JAX_PLATFORMS="cpu")
    r0 = subprocess.run(["/venv/bin/python", "demo.py"], cwd=repo, env=env, capture_output=True, text=True, timeout=1800)
    meta["demo_on_original_exit"] = r0.returncode
    meta["ran"].append("demo.py on a clean copy of /repo HEAD")
    p = subprocess.run(["patch", "-p1", "-s", "-i", os.path.join(dst, "patch.diff")], cwd=repo, capture_output=True, text=True)
    meta["patch_applies"] = p.returncode == 0
    r1 = subprocess.run(["/venv/bin/python", "demo.py"], cwd=repo, env=env, capture_output=True, text=True, timeout=1800)
    meta["demo_on_patched_exit"] = r1.returncode
    meta["demo_patched_tail"] = (r1.stdout + r1.stderr)[-600:]
    meta["ran"].append("demo.py on the copy with patch.diff applied")
    if "--tests" in sys.argv:
        ids = open("/tmp/stable_tests.txt").read().split()
        t = subprocess.run(["/venv/bin/python", "-m", "pytest", "-q", "-p", "no:cacheprovider", "-n", "4", "--timeout=900"] + ids, cwd=repo,
                           env=dict(os.environ, JAX_PLATFORMS="cpu"), capture_output=True, text=True)
        meta["stable_tests_tail"] = t.stdout.strip().splitlines()[-1] if t.stdout.strip() else t.stderr[-300:]
        meta["stable_tests_pass"] = t.returncode == 0
        meta["ran"].append("the 117 stable tests (pytest -n 4) on the patched copy")
    meta["checks"] = {}
    for c_id in [cid] + [a for a in also if a != cid]:
        envc = dict(os.environ, VERIF_REPO=repo, VERIF_OUT=os.path.join(work, "out_" + c_id), VERIF_SEED="1")
        t0 = time.time()
        c = subprocess.run(["/venv/bin/python", "-m", "vp.run", c_id, "--tier", "quick"], cwd=VERIF, env=envc, capture_output=True, text=True)
        lines = [l for l in c.stdout.splitlines() if l.startswith(("VIOLATION", "  violation", "HARNESS"))]
        meta["checks"][c_id] = {"exit": c.returncode, "wall_s": round(time.time() - t0, 1), "first_lines": [l[:400] for l in lines[:3]]}
        meta["ran"].append(f"python -m vp.run {c_id} --tier quick with VERIF_REPO pointing at the patched copy")
    meta["check_exit"] = meta["checks"][cid]["exit"]
    meta["check_first_lines"] = meta["checks"][cid]["first_lines"]
    meta["caught_by_quick_check"] = meta["check_exit"] == 1
    meta["caught_by"] = sorted(k for k, v in meta["checks"].items() if v["exit"] == 1)
finally:
    shutil.rmtree(work, ignore_errors=True)
if "stable_tests_pass" not in meta and "stable_tests_pass" in _old:
    meta["stable_tests_pass"] = _old["stable_tests_pass"]
    meta["stable_tests_tail"] = _old.get("stable_tests_tail")
    meta["ran"].append("the 117 stable tests (pytest -n 4) on the patched copy (earlier run)")
meta["needs_to_manifest"] = note[:1500]
json.dump(meta, open(os.path.join(dst, "meta.json"), "w"), indent=1)
print(fid, cid, "orig", meta.get("demo_on_original_exit"), "patched", meta.get("demo_on_patched_exit"), "tests", meta.get("stable_tests_pass"),
      "caught_by", meta.get("caught_by"), {k: v["exit"] for k, v in meta.get("checks", {}).items()}, meta.get("check_first_lines", [""])[:1])
