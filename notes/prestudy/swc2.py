import sys; sys.path.insert(0,'/tmp/scratch/exp')
import warnings; warnings.filterwarnings('ignore')
import numpy as np, tempfile, os, collections, traceback
from jax import config; config.update('jax_enable_x64', True)
import jaxley as jx
from jaxley.io.swc import swc_to_jaxley
rng = np.random.default_rng(0)
def gen():
    # soma
    nsoma = rng.integers(1,4)
    pts=[(1,1,0.,0.,0.,float(rng.uniform(2,8)),-1)]
    for i in range(1,nsoma): pts.append((i+1,1,float(i*3),0.,0.,float(rng.uniform(2,8)),i))
    # DFS-built neurites
    nid=[len(pts)]
    def grow(parent_id, ptype, pos, depth):
        # a path of k points then fork into 0,2,3 children
        k = rng.integers(1,4)
        cur = parent_id; p=np.array(pos,float)
        for _ in range(k):
            nid[0]+=1; p = p + rng.normal(0,5,3); 
            pts.append((nid[0], ptype, *p.tolist(), float(rng.uniform(0.2,2)), cur)); cur = nid[0]
        if depth<2 and rng.random()<0.6:
            for _ in range(rng.integers(2,4)):
                t = ptype if rng.random()<0.8 else int(rng.integers(2,5))
                grow(cur, t, p, depth+1)
    nroots = rng.integers(1,4)
    for _ in range(nroots):
        att = int(rng.integers(1,nsoma+1))
        grow(att, int(rng.integers(2,5)), pts[att-1][2:5], 0)
    return pts
res = collections.Counter(); examples={}
for it in range(300):
    pts = gen()
    f = tempfile.NamedTemporaryFile('w', suffix='.swc', delete=False)
    for r in pts: f.write(' '.join(str(x) for x in r)+'\n')
    f.close()
    try:
        out = swc_to_jaxley(f.name)
        # quick sanity: total length
        res['ok']+=1
    except Exception as ex:
        key = type(ex).__name__+':'+str(ex)[:60].replace('\n',' ')
        res[key]+=1
        if key not in examples or len(pts)<len(examples[key]): examples[key]=pts
    os.unlink(f.name)
print(res)
for k,p in examples.items():
    print(k); 
    for r in p: print('  ', r[0], r[1], [round(x,1) for x in r[2:5]], round(r[5],2), r[6])
