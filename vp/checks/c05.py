"""C05 - gradients obtained by differentiating through integrate are correct."""
from __future__ import annotations

import numpy as np
from hypothesis import strategies as st

from vp.gen.morph import fl
from vp import core
from vp.gen import morph as gm
from vp.gen import net as gn
from vp.checks import c10

ID = "C05"
RULE = (
    "Hypothesis draws a small cell or network (HH on a drawn subset, 0-4 synapses of two types, some initial voltages pinned "
    "exactly on a rate singularity), 1-3 trainables drawn as in C10 (key x view kind: per compartment, per branch with unequal "
    "sizes, group, channel view, whole module, synapse-type view, edge(i); keys radius, length, axial_resistivity, capacitance, "
    "HH_gNa, HH_gK, v, HH_m, synaptic gS/gC/k_minus, synaptic state), plus a data_stimulate amplitude and a data_set value as "
    "differentiated arguments, 5-20 steps, a solver, a backend and a checkpoint layout (none, one level, two levels, product > "
    "steps). Loss = fixed pseudo-random linear + quadratic functional of all recorded voltages. Oracle: jax.grad of the jitted "
    "loss vs central finite differences of the same jitted loss along 2 dense and up to 3 coordinate directions with relative "
    "steps 1e-3, 1e-4, 1e-5; accepted if some step agrees to 1e-5 relative + 1e-8; inconclusive (counted) if the three "
    "differences disagree among themselves. All gradient entries must be finite. One evaluation per direction. Non-trivial: "
    "|g|>0, >=2 compartments and (a shared parameter or a geometry parameter or checkpoint depth >=2); distinct = "
    "hash(structure, keys + sharing pattern, solver, backend, layout)."
)
ASSUMPTIONS = [
    "float64, CPU; finite differences of the same jitted function are the ground truth wherever they have converged",
    "parameters are perturbed relatively (p = p0*(1+u)) for positive quantities, by 10 mV*u for voltages and 0.1*u for gating variables",
    "jax.sparse / stone / thomas refusals are counted; the case is then run with jax.sparse",
]
TECHNIQUE = "property-based testing (Hypothesis): jax.grad vs converged central finite differences (differential oracle)"
LEVEL_TEXT = (
    "Generated models, trainable keys, sharing patterns, solvers, backends and checkpoint layouts; the gradient of a functional of the "
    "recordings is compared with converged central finite differences along several directions. Search, not proof."
)


def budget(tier):
    return 5 if tier == "quick" else 80


def wall_guard(tier):
    return 1500 if tier == "quick" else 7200


@st.composite
def _spec(draw, tier):
    kind = draw(st.sampled_from(["cell", "cell", "network"]))
    morph = draw(gm.morphology(tier, kinds=(kind,), max_branches=4, max_ncomp=3, max_cells=3, ranges=gm.RANGES_DYN))
    N = gm.n_compartments(morph["cells"])
    morph["v"] = [draw(st.one_of(fl(-75.0, -50.0), st.sampled_from([-40.0, -55.0, -65.0]))) for _ in range(N)]
    hh_rows = list(range(N)) if draw(st.booleans()) else sorted(draw(st.sets(st.integers(0, N - 1), min_size=1, max_size=N)))
    edges = draw(gn.edge_list(N, max_edges=4, min_edges=1, types=c10.SYN)) if kind == "network" and N >= 2 else []
    for e in edges:  # keep conductances away from exactly 0 so that their gradients are informative
        for k in e["params"]:
            if k.startswith("g") and e["params"][k] == 0.0:
                e["params"][k] = 5e-4
    spec = {"morph": morph, "hh_rows": hh_rows, "edges": edges}
    spec["assignments"] = [draw(c10._assignment(spec)) for _ in range(draw(st.integers(1, 3)))]
    # no duplicate (key, overlapping rows) pairs: a later trainable would shadow an earlier one (gradient exactly 0)
    seen, keep = set(), []
    for a in spec["assignments"]:
        if a["key"] not in seen and c10._groups_for(spec, a):
            keep.append(a)
            seen.add(a["key"])
    spec["assignments"] = keep
    for a in spec["assignments"]:
        if a["key"] == "v":
            # a trainable initial voltage pinned exactly on a rate singularity of HH (-40, -55): a guard written
            # with a single `where` has a NaN gradient precisely there
            a["init"] = [draw(st.one_of(st.sampled_from([-40.0, -55.0, -47.0, -45.0, -27.0, -20.0]), fl(-75.0, -50.0))) for _ in a["init"]]
    T = draw(st.integers(5, 20))
    spec["nsteps"] = T
    spec["stim_row"] = draw(st.integers(0, N - 1))
    spec["stim_amp"] = draw(fl(0.05, 0.5))
    spec["dset"] = {"key": draw(st.sampled_from(["radius", "length", "capacitance", "axial_resistivity"])),
                    "rows": sorted(draw(st.sets(st.integers(0, N - 1), min_size=1, max_size=2)))}
    spec["dset"]["val"] = draw(fl(*c10.RANGE[spec["dset"]["key"]]))
    lay = draw(st.sampled_from(["none", "one", "two", "over"]))
    if lay == "none":
        spec["ckpt"] = None
    elif lay == "one":
        spec["ckpt"] = [T]
    elif lay == "two":
        a = draw(st.sampled_from([a for a in (2, 3, 4, 5) if T % a == 0] or [1]))
        spec["ckpt"] = [a, T // a]
    else:
        a = draw(st.integers(2, 4))
        spec["ckpt"] = [a, -(-T // a) + 1]
    spec["solver"] = draw(st.sampled_from(["bwd_euler", "bwd_euler", "crank_nicolson"]))
    spec["backend"] = draw(st.sampled_from(gn.BACKENDS))
    # a non-trainable CaT channel on some compartments that start depolarised: its rate expressions run into the
    # clipped exponential (argument > 20 for v + vx > -22 mV), whose derivative must be 0 there
    spec["cat_rows"] = sorted(draw(st.sets(st.integers(0, N - 1), max_size=2))) if draw(st.integers(0, 2)) == 0 else []
    for r in spec["cat_rows"]:
        morph["v"][r] = draw(fl(-20.0, 10.0))
    # further non-trainable background channels (their rate helpers have their own singular voltages: Na vt+13 = -47,
    # vt+40 = -20, K vt+15 = -45, CaL -27 with the default vt); some of their compartments start exactly there
    spec["bg"] = []
    if draw(st.integers(0, 2)) == 0:
        for mech in draw(st.lists(st.sampled_from(["Na", "K", "Km", "CaL"]), min_size=1, max_size=2, unique=True)):
            rows_ = sorted(draw(st.sets(st.integers(0, N - 1), min_size=1, max_size=2)))
            spec["bg"].append({"mech": mech, "rows": rows_})
            sing = {"Na": [-47.0, -20.0], "K": [-45.0], "CaL": [-27.0], "Km": []}[mech]
            if sing and draw(st.booleans()):
                vs = draw(st.sampled_from(sing))
                morph["v"][rows_[0]] = vs
                if draw(st.booleans()):
                    # ... and that very initial voltage is a differentiated quantity (a guard written with a single
                    # `where` returns a NaN cotangent for the voltage exactly at the singular point)
                    spec["assignments"] = [a for a in spec["assignments"] if a["key"] != "v"]
                    spec["assignments"].append({"on": "nodes", "view": "select", "key": "v", "targets": [rows_[0]],
                                                "init": [vs], "vals": [vs], "init_none": draw(st.booleans())})
    spec["phase"] = [draw(fl(0.1, 3.0)) for _ in range(3)]
    spec["dirs"] = [[draw(fl(-1.0, 1.0)) for _ in range(24)] for _ in range(2)]
    return spec


def strategy(tier):
    return _spec(tier)


def size(spec):
    return (gm.n_compartments(spec["morph"]["cells"]), len(spec["assignments"]), spec["nsteps"], core.spec_size(spec))


def _scale_kind(key):
    if key == "v":
        return "add", 10.0
    if key in ("HH_m", "IonotropicSynapse_s", "TestSynapse_c"):
        return "add", 0.1
    return "mul", 1.0


def judge(spec, tier="quick"):
    import jax
    import jax.numpy as jnp
    import jaxley as jx

    out = core.Outcome()
    T = int(spec["nsteps"])
    rows = gm.rows(spec["morph"])
    N = len(rows)

    def build():
        m = c10.build(spec)
        if spec.get("cat_rows"):
            from jaxley.channels import CaT, Leak
            gn.view_of(m, spec["cat_rows"]).insert(CaT())
            gn.view_of(m, spec["cat_rows"]).insert(Leak())
        for bgc in spec.get("bg", []):
            import jaxley.channels as jc_
            gn.view_of(m, bgc["rows"]).insert(getattr(jc_, bgc["mech"])())
        for a in spec["assignments"]:
            v = c10.the_view(m, spec, a)
            init = [float(x) if _scale_kind(a["key"])[0] == "mul" else float(np.clip(x, 0.15, 0.85) if a["key"] != "v" else x) for x in a["init"]]
            v.make_trainable(a["key"], init_val=init, verbose=False)
        m.record("v", verbose=False)
        return m

    m, err = core.call(build)
    if err:
        if err.etype == "AssertionError" and any(not c10._groups_for(spec, a) for a in spec["assignments"]):
            out.refusals.append("make_trainable: no settable rows")
            return out
        out.violate("raises", f"building the trainable model raised {err.short()}", etype=err.etype, frame=err.frame)
        return out
    p0 = [np.asarray(next(iter(p.values())), float) for p in m.get_parameters()]
    keys = [a["key"] for a in spec["assignments"]]
    sizes = [len(p) for p in p0]
    nu = sum(sizes) + 2
    stim_view = gn.view_of(m, [spec["stim_row"]])
    ds_view = gn.view_of(m, spec["dset"]["rows"])
    pattern = jnp.asarray(np.where(np.arange(T) >= 1, 1.0, 0.0))
    ph = spec["phase"]
    kk, tt = np.meshgrid(np.arange(N), np.arange(T + 1), indexing="ij")
    W1 = jnp.asarray(np.sin(ph[0] * kk + ph[1] * tt + ph[2]) / (N * (T + 1)) / 50.0)
    W2 = jnp.asarray(np.cos(ph[1] * kk + ph[0] * tt + ph[2]) / (N * (T + 1)) / 5000.0)
    kw = dict(delta_t=0.025, solver=spec["solver"], voltage_solver=spec["backend"])
    if spec["ckpt"] is not None:
        kw["checkpoint_lengths"] = [int(x) for x in spec["ckpt"]]

    def loss(u):
        params = []
        off = 0
        for key, p, n in zip(keys, p0, sizes):
            mode, s = _scale_kind(key)
            uu = u[off:off + n]
            params.append({key: (jnp.asarray(p) * (1.0 + uu)) if mode == "mul" else (jnp.asarray(p) + s * uu)})
            off += n
        amp = spec["stim_amp"] * (1.0 + u[off])
        dval = spec["dset"]["val"] * (1.0 + u[off + 1])
        ds = stim_view.data_stimulate(amp * pattern, None)
        ps = ds_view.data_set(spec["dset"]["key"], dval, None)
        recs = jx.integrate(m, params=params, data_stimuli=ds, param_state=ps, **kw)
        return jnp.sum(W1 * recs) + jnp.sum(W2 * recs**2)

    u0 = jnp.zeros(nu)
    f = jax.jit(loss)
    g = jax.jit(jax.grad(loss))
    val, err = core.call(lambda: float(f(u0)))
    if err and spec["backend"] != "jax.sparse" and "solver_utils" in err.frame:
        out.refusals.append(f"{spec['backend']}:{err.etype}@{err.frame}")
        kw["voltage_solver"] = "jax.sparse"
        f = jax.jit(loss)
        g = jax.jit(jax.grad(loss))
        val, err = core.call(lambda: float(f(u0)))
    if err:
        out.violate("raises:forward", f"jit(loss) raised {err.short()}", etype=err.etype, frame=err.frame)
        return out
    if not np.isfinite(val):
        out.filtered += 1
        return out
    grad, err = core.call(lambda: np.asarray(g(u0), float))
    if err:
        out.violate("raises:grad", f"jax.grad through integrate raised {err.short()} (keys {keys}, solver {spec['solver']}, backend {kw['voltage_solver']}, "
                    f"checkpoint_lengths {spec['ckpt']})", etype=err.etype, frame=err.frame)
        return out
    out.evals += 1
    label = f"keys={[(a['view'], a['key']) for a in spec['assignments']]} + stim amplitude + data_set({spec['dset']['key']}), {spec['solver']}/{kw['voltage_solver']}, ckpt={spec['ckpt']}"
    if not np.isfinite(grad).all():
        names = _names(keys, sizes)
        bad = [names[i] for i in np.flatnonzero(~np.isfinite(grad))]
        out.violate("grad-finite", f"gradient entries {bad} are not finite ({label}); initial voltages {spec['morph']['v']}")
        return out
    # directions
    dirs = []
    for d in spec["dirs"]:
        v = np.resize(np.asarray(d, float), nu)
        if np.linalg.norm(v) > 0:
            dirs.append(("dense", v / np.linalg.norm(v)))
    order = np.argsort(-np.abs(grad))
    for i in list(order[:2]) + [nu - 2, nu - 1]:
        e = np.zeros(nu)
        e[i] = 1.0
        dirs.append((_names(keys, sizes)[i], e))
    shared = any(len(g_) > 1 for a in spec["assignments"] for g_ in c10._groups_for(spec, a))
    geom = any(k in ("radius", "length", "axial_resistivity", "capacitance") for k in keys)
    deep = spec["ckpt"] is not None and len(spec["ckpt"]) >= 2
    nontriv = np.linalg.norm(grad) > 0 and N >= 2 and (shared or geom or deep)
    for a in spec["assignments"]:
        out.classes.append("key:" + a["key"])
    out.classes.append("ckpt:" + ("none" if spec["ckpt"] is None else f"depth{len(spec['ckpt'])}" + ("+over" if int(np.prod(spec["ckpt"])) > T else "")))
    out.classes.append(spec["solver"] + "/" + kw["voltage_solver"])
    if spec.get("cat_rows"):
        out.classes.append("CaT on depolarised compartments (clipped exponentials)")
    for bgc in spec.get("bg", []):
        out.classes.append("background " + bgc["mech"])
    if any(v in (-40.0, -55.0) for v in spec["morph"]["v"]) and spec["hh_rows"]:
        out.classes.append("initial v on a rate singularity")
    for name, d in dirs:
        gd = float(grad @ d)
        fds = []
        for h in (1e-3, 1e-4, 1e-5):
            fp = float(f(jnp.asarray(h * d)))
            fm = float(f(jnp.asarray(-h * d)))
            fds.append((fp - fm) / (2 * h))
        tol = lambda a, b: 1e-5 * max(abs(a), abs(b)) + 1e-8
        agree = [abs(gd - x) <= tol(gd, x) for x in fds]
        converged = abs(fds[1] - fds[2]) <= tol(fds[1], fds[2]) or abs(fds[0] - fds[1]) <= tol(fds[0], fds[1])
        if any(agree):
            out.evals += 1
            if nontriv:
                out.nontrivial_keys.append(core.h([spec["morph"]["cells"], [(a["view"], a["key"], a["targets"]) for a in spec["assignments"]],
                                                   spec["solver"], kw["voltage_solver"], spec["ckpt"], name]))
        elif not converged:
            out.inconclusive += 1
        else:
            out.evals += 1
            out.violate("grad-vs-fd", f"direction {name}: jax.grad gives {gd!r}, central differences {fds} (h = 1e-3, 1e-4, 1e-5 relative); {label}",
                        direction=name)
            return out
    return out


def _names(keys, sizes):
    names = []
    for k, n in zip(keys, sizes):
        names += [f"{k}[{i}]" for i in range(n)]
    return names + ["stim_amplitude", "data_set_value"]


PREDICATES = {}
