import sys; sys.path.insert(0,'/tmp/scratch/exp')
import warnings; warnings.filterwarnings('ignore')
from ref import *
import jax
from jaxley.channels import HH, Na, K, Leak, CaL
from jaxley.synapses import TestSynapse
from jaxley.connect import fully_connect, sparse_connect, connectivity_matrix_connect
rng=np.random.default_rng(4)
print('--- C12 sibling permutation')
comp=jx.Compartment()
def br(n, r, withhh):
    b=jx.Branch(comp,ncomp=n); b.set('radius',r); 
    if withhh: b.insert(HH())
    else: b.insert(Leak())
    return b
A,B,C=br(2,1.0,True), br(3,2.0,False), br(1,0.5,True)
c1=jx.Cell([A,B,C],parents=[-1,0,0]); c2=jx.Cell([A,C,B],parents=[-1,0,0])
for c in (c1,c2):
    c.branch(0).comp(0).stimulate(jx.step_current(0.0,0.5,0.3,0.025,0.5),verbose=False); c.record('v',verbose=False)
for vs in ['jax.sparse','jaxley.stone']:
    o1=np.asarray(jx.integrate(c1,voltage_solver=vs)); o2=np.asarray(jx.integrate(c2,voltage_solver=vs))
    perm=[0,1,5,2,3,4]  # c2 rows: A(0,1),C(2),B(3,4,5) -> c1 rows A(0,1),B(2,3,4),C(5)
    print(vs, np.abs(o1[perm]-o2).max())
print('--- C13 SWC set_ncomp vs read_swc')
fn='/repo/tests/swc_files/morph_250.swc'
a=jx.read_swc(fn,ncomp=2); nb=len(a.comb_parents); print('branches',nb)
for b in range(nb): a.branch(b).set_ncomp(3)
d=jx.read_swc(fn,ncomp=3)
print('radius', np.abs(a.nodes.radius-d.nodes.radius).max(), 'length', np.abs(a.nodes.length-d.nodes.length).max(), 'groups equal', all(np.array_equal(a.groups[k],d.groups[k]) for k in d.groups))
print('--- C08 clamp & t_max')
c=jx.Cell(); c.insert(HH()); c.record('v',verbose=False); c.record('HH_m',verbose=False)
c.clamp('v', jnp.asarray([-60.,-50.,-40.,-30.]), verbose=False); c.clamp('HH_m', jnp.asarray([0.1,0.2,0.3,0.4]), verbose=False)
o=np.asarray(jx.integrate(c)); print(o)
c.delete_clamps(); c.stimulate(jnp.asarray([1.,2.,3.]),verbose=False)
for tm in [None, 0.05, 0.2]:
    try: print('t_max',tm, np.asarray(jx.integrate(c,t_max=tm)).shape)
    except Exception as ex: print('t_max',tm,'ERR',type(ex).__name__,str(ex)[:80])
print('--- C05 gradient at singular voltage')
c=jx.Cell(); c.insert(HH()); c.set('v',-40.0); c.record('HH_m',verbose=False); c.make_trainable('v',verbose=False); c.make_trainable('HH_gNa',verbose=False)
def loss(p): return jnp.sum(jx.integrate(c,params=p,t_max=0.1))
p=c.get_parameters(); g=jax.grad(loss)(p); print(g)
h=1e-4; pp=[{'v':p[0]['v']+h},p[1]]; pm=[{'v':p[0]['v']-h},p[1]]; print('fd', (loss(pp)-loss(pm))/(2*h))
print('--- C20')
def cellpairs(net):
    e=net.edges; cidx=net.nodes['global_cell_index'].to_numpy()
    return sorted(zip(cidx[e.pre_global_comp_index.to_numpy(int)].tolist(), cidx[e.post_global_comp_index.to_numpy(int)].tolist()))
def mk(parents,ncs): return jx.Cell([jx.Branch(comp,ncomp=n) for n in ncs],parents=parents)
cells=[mk([-1,0],[2,1]),mk([-1],[3]),mk([-1,0,0],[1,2,1]),mk([-1],[1]),mk([-1,0],[2,2])]
np.random.seed(3); net=jx.Network(cells); fully_connect(net.cell([0,3]),net.cell([1,2,4]),TestSynapse()); print(cellpairs(net), net.edges.pre_global_comp_index.tolist())
np.random.seed(3); net=jx.Network(cells); M=np.array([[True,False,True],[False,False,True]]); connectivity_matrix_connect(net.cell([0,3]),net.cell([1,2,4]),TestSynapse(),M); print(cellpairs(net))
cnt={}
for s in range(40):
    np.random.seed(s); net=jx.Network(cells)
    try:
        sparse_connect(net.cell([0,3]),net.cell([1,2]),TestSynapse(),p=0.3); n=len(net.edges); cnt[n]=cnt.get(n,0)+1
        assert all(a in (0,3) and b in (1,2) for a,b in cellpairs(net))
    except Exception as ex: cnt['ERR '+type(ex).__name__]=cnt.get('ERR '+type(ex).__name__,0)+1
print(cnt)
