import sys; sys.path.insert(0,'/tmp/scratch/exp')
import warnings; warnings.filterwarnings('ignore')
from ref import *
rng = np.random.default_rng(11)
for trial in range(6):
    nb = rng.integers(1,6); parents=[-1]+[int(rng.integers(0,b)) for b in range(1,nb)]; ncomps=[int(rng.integers(1,5)) for _ in range(nb)]
    cell = build_cell(parents, ncomps, rng)
    N=len(cell.nodes)
    cell.set('radius', np.exp(rng.uniform(np.log(0.1),np.log(20),N))); cell.set('length', np.exp(rng.uniform(np.log(0.5),np.log(500),N)))
    cell.set('axial_resistivity', np.exp(rng.uniform(np.log(10),np.log(2e4),N))); cell.set('Leak_gLeak', np.exp(rng.uniform(np.log(1e-6),np.log(1e-2),N)))
    nodes=cell.nodes
    A_ = 2*np.pi*nodes.radius*nodes.length*1e-8; C=(nodes.capacitance*A_).to_numpy(); Gm=(nodes.Leak_gLeak*A_*1e3).to_numpy(); E=nodes.Leak_eLeak.to_numpy(); v0=nodes.v.to_numpy()
    for dt in [1e-3, 1.0, 1e3, 1e6, 1e9]:
        ref = reference_step(nodes, parents, ncomps, dt)
        row=[]
        for vs in ['jaxley.stone','jaxley.thomas','jax.sparse']:
            cell.delete_recordings(); cell.record('v', verbose=False)
            out = np.asarray(jx.integrate(cell, t_max=dt*1.5, delta_t=dt, voltage_solver=vs))[:,1]
            lo=min(v0.min(),E.min()); hi=max(v0.max(),E.max())
            viol = max(lo-out.min(), out.max()-hi, 0)
            charge = np.sum(C*(out-v0)) - dt*(-np.sum(Gm*(out-E)))
            scale = np.sum(np.abs(C*(out-v0))) + dt*np.sum(np.abs(Gm*(out-E)))
            row.append((f'{np.abs(out-ref).max():.1e}', f'{viol:.1e}', f'{abs(charge)/scale:.1e}'))
        print(parents, ncomps, dt, row)
