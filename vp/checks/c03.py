"""C03 - gates stay finite, in [0,1], and follow the exact exponential update.

Two routes: (direct) `Mechanism.update_states` on arrays of generated points; (clamp) a
compartment whose voltage is clamped, gates recorded through `jx.integrate`.
"""
from __future__ import annotations

import numpy as np
from hypothesis import strategies as st

from vp import core
from vp.ref import mech as R2

ID = "C03"
EPS = float(np.finfo(np.float64).eps)

RULE = (
    "Hypothesis draws (mechanism, optional rename, dt, parameters, N points (v, gate states)); v is a "
    "50/50 mixture of floats(-200,200) (any double) and a singularity-directed strategy (each removable "
    "singularity v_s of the rate expressions: exactly v_s, +-k ulps, +-10^-k, +-m*10^-k with any mantissa m in [1,10)). Every point is one oracle "
    "evaluation per gate. Non-trivial: |v-v_s|<1e-3, or |v|>100, or dt>100, or a state exactly 0 or 1; "
    "distinct = (mechanism, gate, 1 mV voltage bucket or 'sing', dt decade, state class). A tenth of "
    "the cases go through jx.integrate with a voltage clamp instead of calling update_states directly."
)
ASSUMPTIONS = [
    "float64 (jax_enable_x64), CPU",
    "closed form evaluated with the mechanism's own public rate functions (m_gate, ...) recombined in NumPy (1e-12), and - for v in "
    "[-150,100] - with the published rates of vp/ref/mech.py (1e-5: an error of a rate function that moves the update, e.g. cancellation "
    "one ulp away from a singular voltage)",
    "synapses have no public rate function: Abbott&Marder s_inf/tau transcribed in vp/ref/mech.py",
    "tolerance 1e-12 absolute plus the conditioning of tau=(1-s_inf)/k_minus for synapses",
    "an exception from update_states is a violation (the property says the update returns a value)",
]

CHANNELS = ["HH", "Na", "K", "Km", "CaL", "CaT", "Leak"]
SYNAPSES = ["IonotropicSynapse", "TestSynapse"]


def budget(tier):
    return 150 if tier == "quick" else 1500


def wall_guard(tier):
    return 600 if tier == "quick" else 3600


# --------------------------------------------------------------------------------------
# strategy
# --------------------------------------------------------------------------------------

NICE_VT = [-60.0, -63.0, -56.2, -55.0, -50.0, -70.0, -61.5]


def _ulps(x, k):
    y = np.float64(x)
    step = np.inf if k > 0 else -np.inf
    for _ in range(abs(k)):
        y = np.nextafter(y, step)
    return float(y)


def _singular_points(mech, params):
    out = []
    for s in R2.CHANNELS[mech]["singular"] if mech in R2.CHANNELS else []:
        if isinstance(s, tuple):
            out.append(params[s[0]] + s[1])
        else:
            out.append(s)
    if mech in SYNAPSES:
        out.append(R2.V_TH)
    return out


def _v_strategy(mech, params):
    sing = _singular_points(mech, params)
    # any double in the range, with extra weight on the two ends of the range, where the clipped
    # exponentials saturate (|v| > 150)
    plain = st.one_of(st.floats(-200.0, 200.0, allow_nan=False), st.floats(-200.0, 200.0, allow_nan=False),
                      st.floats(150.0, 200.0, allow_nan=False), st.floats(-200.0, -150.0, allow_nan=False))
    if not sing:
        return st.one_of(plain, st.sampled_from([-200.0, 200.0, 0.0, -100.0, 100.0]))

    def near(t):
        vs, mode, k, sign, mant = t
        if mode == "exact":
            return float(vs)
        if mode == "ulp":
            return _ulps(vs, sign * k)
        if mode == "pow":
            return float(vs + sign * 10.0 ** (-k))
        # "window": any distance between 1e-k and 1e-(k-1), so that the whole neighbourhood in which a guard
        # switches to a series expansion (|x| < 1e-5 or so) is covered, not only the powers of ten
        return float(vs + sign * mant * 10.0 ** (-k))

    directed = st.tuples(
        st.sampled_from(sing),
        st.sampled_from(["exact", "ulp", "pow", "window", "window"]),
        st.integers(1, 15),
        st.sampled_from([-1, 1]),
        st.floats(1.0, 10.0, allow_nan=False),
    ).map(near)
    return st.one_of(plain, directed)


STATE = st.one_of(
    st.floats(0.0, 1.0, allow_nan=False),
    st.sampled_from([0.0, 1.0, 5e-324, 1e-300, 1.0 - 2.0**-53, 0.5]),
)
DT = st.one_of(
    st.sampled_from([0.025, 1.0, 1e3, 1e-3, 0.1, 1e-6, 1e-7, 1e-8, 1e-9]),
    st.floats(1e-9, 1e3, allow_nan=False),
    st.floats(-9.0, 3.0).map(lambda e: float(10.0**e)),
)
NAME = st.one_of(
    st.none(),
    st.sampled_from(["X", "Km", "my_chan", "Na", "K2", "syn_A"]),
)


def _log_uniform(lo, hi):
    return st.floats(np.log10(lo), np.log10(hi)).map(lambda e: float(10.0**e))


@st.composite
def _params(draw, mech):
    p = {}
    if mech in R2.CHANNELS:
        p = dict(R2.CHANNELS[mech]["params"])
        for k in list(p):
            if k.startswith("g"):
                p[k] = draw(st.one_of(st.just(p[k]), _log_uniform(p[k] * 1e-2, p[k] * 1e2)))
            elif k.startswith("e"):
                p[k] = draw(st.one_of(st.just(p[k]), st.floats(p[k] - 30.0, p[k] + 30.0)))
        if "vt" in p:
            p["vt"] = draw(st.one_of(st.sampled_from(NICE_VT), st.floats(-75.0, -45.0)))
        if "taumax" in p:
            p["taumax"] = draw(st.one_of(st.just(4000.0), st.floats(200.0, 8000.0)))
        if "vx" in p:
            p["vx"] = draw(st.one_of(st.just(2.0), st.floats(-10.0, 10.0)))
    else:
        p = dict(R2.SYNAPSES[mech]["params"])
        for k in list(p):
            if k.startswith("g"):
                p[k] = draw(st.one_of(st.just(p[k]), st.just(0.0), _log_uniform(1e-6, 1e-2)))
        if "k_minus" in p:
            p["k_minus"] = draw(st.one_of(st.just(0.025), _log_uniform(0.005, 0.5)))
        if "e_syn" in p:
            p["e_syn"] = draw(st.floats(-90.0, 20.0))
    return p


@st.composite
def _spec(draw, tier):
    kind = draw(st.sampled_from(["direct"] * 9 + ["clamp"]))
    if kind == "clamp":
        mech = draw(st.sampled_from([m for m in CHANNELS if m != "Leak"]))
    else:
        mech = draw(st.sampled_from(CHANNELS + SYNAPSES))
    name = draw(NAME)
    if name == mech:
        name = None
    params = draw(_params(mech))
    dt = draw(DT)
    table = R2.CHANNELS[mech] if mech in R2.CHANNELS else R2.SYNAPSES[mech]
    nstates = len(table["states"])
    vstrat = _v_strategy(mech, params)
    if kind == "clamp":
        return dict(
            kind=kind, mech=mech, name=name, dt=dt, params=params, v=draw(vstrat),
            states=[draw(STATE) for _ in range(nstates)], k=draw(st.sampled_from([2, 5])),
        )
    n = draw(st.integers(1, 48 if tier == "quick" else 96))
    pts = draw(
        st.lists(
            st.tuples(vstrat, st.floats(-200.0, 200.0), *[STATE] * nstates), min_size=n, max_size=n
        )
    )
    return dict(kind=kind, mech=mech, name=name, dt=dt, params=params, points=[list(p) for p in pts])


def strategy(tier):
    return _spec(tier)


def size(spec):
    return (len(spec.get("points", [])) + spec.get("k", 0), core.spec_size(spec))


# --------------------------------------------------------------------------------------
# oracle
# --------------------------------------------------------------------------------------


def _make(mech, name):
    import jaxley.channels as jc
    import jaxley.synapses as js

    cls = getattr(jc, mech, None) or getattr(js, mech)
    return cls(name) if name else cls()


def _prefixed(mech, name, key):
    table = R2.CHANNELS.get(mech)
    pre = name or mech
    if table is not None and key in table["globals"]:
        return key
    return f"{pre}_{key}"


def _classes(mech, params, v, dt, s):
    sing = _singular_points(mech, params)
    near = any(abs(v - vs) < 1e-3 for vs in sing)
    cls = []
    if near:
        cls.append("near-singularity")
    if abs(v) > 100:
        cls.append("|v|>100")
    if dt > 100:
        cls.append("dt>100")
    if any(x in (0.0, 1.0) for x in s):
        cls.append("state in {0,1}")
    return near, cls


def _own_rates(obj, mech, gate, v, params_np):
    """(x_inf, tau) from the mechanism's own public rate function, recombined in NumPy."""
    import jax.numpy as jnp

    table = R2.CHANNELS[mech]
    args = [jnp.asarray(params_np[a]) for a in table["gate_args"][gate]]
    res, err = core.call(getattr(obj, f"{gate}_gate"), jnp.asarray(v), *args)
    if err:
        return None, None, err
    a, b = (np.asarray(res[0], dtype=np.float64), np.asarray(res[1], dtype=np.float64))
    kind = table["gates"][gate](np.asarray(v), params_np)[0]
    x_inf, tau = R2.steady_tau(kind, a, b)
    return x_inf, tau, None


def _judge_gate(out, spec, gate, v, dt, s_old, s_new, x_inf, tau, extra_tol=0.0):
    mech = spec["mech"]
    bad = ~np.isfinite(s_new)
    if bad.any():
        i = int(np.argmax(bad))
        out.violate("finite", f"{mech}.{gate}: update at v={v[i]!r} dt={dt!r} s={s_old[i]!r} returned {s_new[i]!r}",
                    point=[float(v[i]), float(s_old[i])])
        return
    lo, hi = -4 * EPS, 1.0 + 4 * EPS
    oob = (s_new < lo) | (s_new > hi)
    if oob.any():
        i = int(np.argmax(oob))
        out.violate("bounds", f"{mech}.{gate}: v={v[i]!r} dt={dt!r} s={s_old[i]!r} -> {s_new[i]!r} outside [0,1]")
    if not (np.isfinite(x_inf).all() and np.isfinite(tau).all() and (tau >= 0).all()):
        i = int(np.argmax(~(np.isfinite(x_inf) & np.isfinite(tau) & (tau >= 0))))
        out.violate("finite", f"{mech}.{gate}: own rate function at v={v[i]!r} gives x_inf={x_inf[i]!r} tau={tau[i]!r}")
        return
    exp = R2.exp_update(s_old, dt, x_inf, tau)
    tol = 1e-12 + extra_tol
    err = np.abs(s_new - exp)
    if (err > tol).any():
        i = int(np.argmax(err - tol))
        out.violate("closed-form", f"{mech}.{gate}: v={v[i]!r} dt={dt!r} s={s_old[i]!r}: got {s_new[i]!r}, "
                    f"closed form {exp[i]!r} (x_inf={x_inf[i]!r}, tau={tau[i]!r})")
    # toward, never past
    tiny = 1e-13 + extra_tol
    wrong_dir = (s_new - s_old) * (x_inf - s_old) < -tiny
    past = np.abs(s_new - x_inf) > np.abs(s_old - x_inf) + tiny
    over = (s_new - x_inf) * (s_old - x_inf) < -tiny
    if (wrong_dir | past | over).any():
        i = int(np.argmax(wrong_dir | past | over))
        out.violate("toward-not-past", f"{mech}.{gate}: v={v[i]!r} dt={dt!r} s={s_old[i]!r} -> {s_new[i]!r} "
                    f"with steady state {x_inf[i]!r}")


def _judge_direct(spec, out):
    import jax.numpy as jnp

    mech, name, dt = spec["mech"], spec["name"], float(spec["dt"])
    pts = np.asarray(spec["points"], dtype=np.float64)
    v, vpost, S = pts[:, 0], pts[:, 1], pts[:, 2:]
    n = len(v)
    obj, err = core.call(_make, mech, name)
    if err:
        out.violate("raises", f"constructing {mech}({name!r}): {err.short()}", etype=err.etype, frame=err.frame)
        return
    is_syn = mech in SYNAPSES
    table = R2.SYNAPSES[mech] if is_syn else R2.CHANNELS[mech]
    snames = list(table["states"])
    params_np = {k: np.full(n, float(val)) for k, val in spec["params"].items()}
    pre = name or mech
    if is_syn:
        pj = {f"{pre}_{k}": jnp.asarray(a) for k, a in params_np.items()}
        sj = {f"{pre}_{k}": jnp.asarray(S[:, i]) for i, k in enumerate(snames)}
        res, err = core.call(obj.update_states, sj, dt, jnp.asarray(v), jnp.asarray(vpost), pj)
    else:
        pj = {_prefixed(mech, name, k): jnp.asarray(a) for k, a in params_np.items()}
        for k in ("radius", "length", "axial_resistivity", "capacitance"):
            pj[k] = jnp.ones(n)
        sj = {_prefixed(mech, name, k): jnp.asarray(S[:, i]) for i, k in enumerate(snames)}
        res, err = core.call(obj.update_states, sj, dt, jnp.asarray(v), pj)
    if err:
        out.violate("raises", f"{mech}.update_states raised {err.short()}", etype=err.etype, frame=err.frame)
        return
    for i, g in enumerate(snames):
        key = f"{pre}_{g}"
        if key not in res:
            out.violate("missing-state", f"{mech}({name!r}).update_states did not return {key}; keys={sorted(res)}")
            continue
        s_new = np.asarray(res[key], dtype=np.float64).reshape(-1)
        if s_new.shape != (n,):
            out.violate("shape", f"{key}: shape {s_new.shape} for {n} points")
            continue
        extra = 0.0
        if is_syn:
            k = params_np["k_minus"] if "k_minus" in params_np else np.full(n, 1 / 40.0)
            x_inf = R2.graded_sinf(v)
            om = R2.graded_one_minus_sinf(v)
            tau = om / k
            # conditioning of the library's `1 - s_inf` (cancellation), see DESIGN section 5/C03
            rel_tau = 8 * EPS / np.maximum(om, 1e-300)
            z = dt / tau
            extra = float(np.max(np.abs(S[:, i] - x_inf) * z * np.exp(-z) * rel_tau))
            extra = min(extra, 1e-3)
        else:
            x_inf, tau, e2 = _own_rates(obj, mech, g, v, params_np)
            if e2:
                out.violate("raises", f"{mech}.{g}_gate raised {e2.short()}", etype=e2.etype, frame=e2.frame)
                continue
        _judge_gate(out, spec, g, v, dt, S[:, i], s_new, x_inf, tau, extra)
        if not is_syn and not out.violations:
            # the gate's ODE is defined by the PUBLISHED rates: compare with the closed form evaluated with the
            # reference kinetics (R2) too, inside C04's validated voltage range. An error of the rate function that
            # moves the update by more than 1e-5 (e.g. cancellation next to a singular voltage) shows up here.
            inr = (v >= -150.0) & (v <= 100.0)
            if inr.any():
                gfun = R2.CHANNELS[mech]["gates"][g]
                kind, a_, b_ = gfun(v[inr], {k: a[inr] for k, a in params_np.items()})
                xr, tr = R2.steady_tau(kind, a_, b_)
                want = R2.exp_update(S[inr, i], dt, xr, tr)
                bad = ~(np.abs(s_new[inr] - want) <= 1e-5)
                out.evals += int(inr.sum())
                if bad.any():
                    j = int(np.argmax(bad))
                    out.violate("closed-form-published", f"{mech}.{g}: v={v[inr][j]!r} dt={dt!r} s={S[inr, i][j]!r}: got {s_new[inr][j]!r}, closed form with the "
                                f"published rates {want[j]!r} (x_inf={xr[j]!r}, tau={tr[j]!r})")
        out.evals += n
        for j in range(n):
            near, cls = _classes(mech, spec["params"], v[j], dt, S[j])
            if cls:
                bucket = "sing" if near else int(np.floor(v[j]))
                sclass = "edge" if S[j, i] in (0.0, 1.0) else "in"
                out.nontrivial_keys.append(f"{mech}.{g}|{bucket}|{int(np.floor(np.log10(dt)))}|{sclass}")
    if not snames:  # Leak: update_states returns no state
        out.evals += 1
        if res:
            out.violate("missing-state", f"Leak.update_states returned {sorted(res)}")
    seen = set()
    for j in range(n):
        seen.update(_classes(mech, spec["params"], v[j], dt, S[j])[1])
    out.classes.extend(sorted(seen))
    out.classes.append("direct:" + mech + (":renamed" if name else ""))


def _judge_clamp(spec, out):
    import jax.numpy as jnp
    import jaxley as jx

    mech, name, dt, v, k = spec["mech"], spec["name"], float(spec["dt"]), float(spec["v"]), int(spec["k"])
    table = R2.CHANNELS[mech]
    snames = list(table["states"])
    pre = name or mech

    def run():
        comp = jx.Compartment()
        ch = _make(mech, name)
        comp.insert(ch)
        for key, val in spec["params"].items():
            comp.set(_prefixed(mech, name, key), float(val))
        for g, s0 in zip(snames, spec["states"]):
            comp.set(f"{pre}_{g}", float(s0))
        comp.set("v", v)
        comp.clamp("v", v * jnp.ones(k), verbose=False)
        for g in snames:
            comp.record(f"{pre}_{g}", verbose=False)
        return ch, np.asarray(jx.integrate(comp, delta_t=dt), dtype=np.float64)

    res, err = core.call(run)
    if err:
        out.violate("raises", f"clamped {mech} through integrate raised {err.short()}", etype=err.etype, frame=err.frame)
        return
    ch, recs = res
    if recs.shape != (len(snames), k + 1):
        out.violate("shape", f"recordings shape {recs.shape}, expected {(len(snames), k + 1)}")
        return
    params_np = {kk: np.full(1, float(val)) for kk, val in spec["params"].items()}
    for i, g in enumerate(snames):
        x_inf, tau, e2 = _own_rates(ch, mech, g, np.asarray([v]), params_np)
        if e2:
            out.violate("raises", f"{mech}.{g}_gate raised {e2.short()}", etype=e2.etype, frame=e2.frame)
            continue
        if abs(recs[i, 0] - spec["states"][i]) > 0:
            out.violate("closed-form", f"clamp route {mech}.{g}: column 0 is {recs[i,0]!r}, initial state {spec['states'][i]!r}")
        for t in range(k):
            _judge_gate(out, spec, g + f"@step{t+1}", np.asarray([v]), dt, recs[i, t : t + 1], recs[i, t + 1 : t + 2], x_inf, tau)
            out.evals += 1
        near, cls = _classes(mech, spec["params"], v, dt, spec["states"])
        if cls:
            out.nontrivial_keys.append(f"clamp|{mech}.{g}|{'sing' if near else int(np.floor(v))}|{int(np.floor(np.log10(dt)))}")
    out.classes.append("clamp:" + mech)


def judge(spec, tier="quick"):
    out = core.Outcome()
    if spec["kind"] == "direct":
        _judge_direct(spec, out)
    else:
        _judge_clamp(spec, out)
    return out


PREDICATES = {}

TECHNIQUE = "property-based testing (Hypothesis): closed-form oracle over generated (v, dt, state) points incl. singularity-directed doubles; voltage-clamp route through integrate"
LEVEL_TEXT = (
    "Generated-input search: every built-in mechanism's state update is compared with the closed-form "
    "solution of its gate ODE, checked for finiteness, [0,1] bounds and no overshoot, on tens of thousands "
    "of (v, dt, state) points per run including the exact singular voltages and their ulp neighbours. "
    "Search, not proof: a defect confined to a single double away from the directed points can be missed."
)
