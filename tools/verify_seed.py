"""Independent confirmation of a seeded change produced by a sub-agent.

usage: python tools/verify_seed.py C07 [--tests]
  1. copies /tmp/seed_<ID>/{patch.diff,demo.py,NOTE.md} to /verif/seeded/<ID>/
  2. clean scratch copy of /repo HEAD: demo must exit 0; with the patch applied it must exit 1
  3. with --tests: the 117 stable tests must pass with the patch applied
  4. runs the property's quick check against the patched copy (VERIF_REPO)
Writes seeded/<ID>/meta.json.
"""
import json, os, shutil, subprocess, sys, tempfile, time

VERIF = os.path.dirname(os.path.dirname(os.path.abspath(__file__)))
cid = sys.argv[1]
rnd = sys.argv[sys.argv.index("--round") + 1] if "--round" in sys.argv else "1"
src = f"/tmp/seed_{cid}" if rnd == "1" else f"/tmp/seed{rnd}_{cid}"
dst = os.path.join(VERIF, "seeded", cid if rnd == "1" else f"{cid}_{rnd}")
os.makedirs(dst, exist_ok=True)
for f in ("patch.diff", "demo.py", "NOTE.md"):
    if os.path.exists(os.path.join(src, f)):
        shutil.copy(os.path.join(src, f), os.path.join(dst, f))
work = tempfile.mkdtemp(prefix=f"vseed-{cid}-", dir="/dev/shm")
meta = {"property": cid, "ran": []}
_old = {}
if os.path.exists(os.path.join(dst, "meta.json")):
    try:
        _old = json.load(open(os.path.join(dst, "meta.json")))
    except Exception:
        _old = {}
try:
    repo = os.path.join(work, "repo")
    subprocess.run(["rsync", "-a", "--exclude", ".git", "/repo/", repo + "/"], check=True)
    shutil.copy(os.path.join(dst, "demo.py"), os.path.join(repo, "demo.py"))
    env = dict(os.environ, PYTHONPATH=repo, JAX_PLATFORMS="cpu")
    r0 = subprocess.run(["/venv/bin/python", "demo.py"], cwd=repo, env=env, capture_output=True, text=True, timeout=1800)
    meta["demo_on_original_exit"] = r0.returncode
    meta["ran"].append("demo.py on a clean copy of /repo HEAD")
    p = subprocess.run(["patch", "-p1", "-s", "-i", os.path.join(dst, "patch.diff")], cwd=repo, capture_output=True, text=True)
    meta["patch_applies"] = p.returncode == 0
    r1 = subprocess.run(["/venv/bin/python", "demo.py"], cwd=repo, env=env, capture_output=True, text=True, timeout=1800)
    meta["demo_on_patched_exit"] = r1.returncode
    meta["demo_patched_tail"] = (r1.stdout + r1.stderr)[-600:]
    meta["ran"].append("demo.py on the copy with patch.diff applied")
    if "--tests" in sys.argv:
        ids = open("/tmp/stable_tests.txt").read().split()
        t = subprocess.run(["/venv/bin/python", "-m", "pytest", "-q", "-p", "no:cacheprovider", "-n", "4", "--timeout=900"] + ids, cwd=repo,
                           env=dict(os.environ, JAX_PLATFORMS="cpu"), capture_output=True, text=True)
        meta["stable_tests_tail"] = t.stdout.strip().splitlines()[-1] if t.stdout.strip() else t.stderr[-300:]
        meta["stable_tests_pass"] = t.returncode == 0
        meta["ran"].append("the 117 stable tests (pytest -n 4) on the patched copy")
    envc = dict(os.environ, VERIF_REPO=repo, VERIF_OUT=os.path.join(work, "out"), VERIF_SEED="1")
    t0 = time.time()
    c = subprocess.run(["/venv/bin/python", "-m", "vp.run", cid, "--tier", "quick"], cwd=VERIF, env=envc, capture_output=True, text=True)
    lines = [l for l in c.stdout.splitlines() if l.startswith(("VIOLATION", "  violation", "HARNESS"))]
    meta["check_exit"] = c.returncode
    meta["check_wall_s"] = round(time.time() - t0, 1)
    meta["check_first_lines"] = [l[:400] for l in lines[:3]]
    meta["caught_by_quick_check"] = c.returncode == 1
    meta["ran"].append(f"python -m vp.run {cid} --tier quick with VERIF_REPO pointing at the patched copy")
finally:
    shutil.rmtree(work, ignore_errors=True)
if "stable_tests_pass" not in meta and "stable_tests_pass" in _old:
    meta["stable_tests_pass"] = _old["stable_tests_pass"]
    meta["stable_tests_tail"] = _old.get("stable_tests_tail")
    meta["ran"].append("the 117 stable tests (pytest -n 4) on the patched copy (earlier run)")
note = open(os.path.join(dst, "NOTE.md")).read() if os.path.exists(os.path.join(dst, "NOTE.md")) else ""
meta["needs_to_manifest"] = note[:1500]
json.dump(meta, open(os.path.join(dst, "meta.json"), "w"), indent=1)
print(cid, "orig", meta.get("demo_on_original_exit"), "patched", meta.get("demo_on_patched_exit"), "tests", meta.get("stable_tests_pass"),
      "check", meta.get("check_exit"), meta.get("check_first_lines", [""])[:1])
