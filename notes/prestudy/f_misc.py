import sys; sys.path.insert(0,'/tmp/scratch/exp')
import warnings; warnings.filterwarnings('ignore')
from ref import *
import jax
from jaxley.channels import HH, Na, K, Km, CaL, CaT, Leak
from jaxley.synapses import IonotropicSynapse, TestSynapse, TanhRateSynapse
from jaxley.connect import connect, fully_connect, sparse_connect, connectivity_matrix_connect

print('--- F4: NaN at singular voltages')
print('HH m_gate(-40):', HH.m_gate(jnp.asarray(-40.0)), ' n_gate(-55):', HH.n_gate(jnp.asarray(-55.0)))
print('Na m_gate(vt+13):', Na.m_gate(jnp.asarray(-47.0), -60.0), 'Na m_gate(vt+40)', Na.m_gate(jnp.asarray(-20.0), -60.0))
print('K n_gate(vt+15):', K.n_gate(jnp.asarray(-45.0), -60.0))
print('CaL q_gate(-27):', CaL.q_gate(jnp.asarray(-27.0)))

print('--- F3: Km/CaT init_state fixed point')
for ch, st in [(Km(), 'Km_p'), (CaT(), 'CaT_u')]:
    v = jnp.asarray([-60.0])
    params = {k: jnp.asarray([val]) for k, val in ch.channel_params.items()}
    s0 = ch.init_state({}, v, params, 0.025)
    s1 = ch.update_states({k: val for k, val in s0.items()}, 1000.0, v, params)
    print(type(ch).__name__, s0, s1)

print('--- F11 softplus')
from jaxley.optimize.transforms import SoftplusTransform, SigmoidTransform
t = SoftplusTransform(0.0)
print(t.forward(t.inverse(50.0)), t.forward(30.0), t.inverse(t.forward(25.0)))
s = SigmoidTransform(0.0,1.0)
print(s.forward(-50.0), s.forward(-25.), s.inverse(s.forward(-25.0)))

print('--- F7 fully_connect n_pre != n_post')
np.random.seed(0)
comp = jx.Compartment(); branch = jx.Branch(comp, ncomp=2); cell = jx.Cell(branch, parents=[-1,0])
net = jx.Network([cell for _ in range(5)])
fully_connect(net.cell([0,1]), net.cell([2,3,4]), TestSynapse())
e = net.edges
c = net.nodes['global_cell_index'].to_numpy()
print(list(zip(c[e.pre_global_comp_index.to_numpy()], c[e.post_global_comp_index.to_numpy()])))

print('--- F8 sparse_connect one connection')
for seed in range(30):
    np.random.seed(seed)
    net = jx.Network([cell for _ in range(4)])
    try:
        sparse_connect(net.cell([0,1]), net.cell([2,3]), TestSynapse(), p=0.25)
    except Exception as ex:
        print('seed', seed, type(ex).__name__, str(ex)[:80]); break

print('--- F9 groups stale after set_ncomp')
cell = jx.Cell([jx.Branch(comp, ncomp=2) for _ in range(3)], parents=[-1,0,0])
cell.branch(2).add_to_group('g')
print('before', cell.groups, cell.g.nodes['global_branch_index'].unique())
cell.branch(0).set_ncomp(4)
print('after', cell.groups, cell.g.nodes['global_branch_index'].unique())

print('--- F10 delete_channel with shared param column')
cell = jx.Cell([jx.Branch(comp, ncomp=2) for _ in range(2)], parents=[-1,0])
cell.insert(Na()); cell.insert(K())
cell.delete_channel(K())
print(cell.nodes.columns.tolist())
cell.record('v', verbose=False)
try:
    out = jx.integrate(cell, t_max=1.0); print('out finite', np.isfinite(out).all())
except Exception as ex:
    print(type(ex).__name__, str(ex)[:100])
