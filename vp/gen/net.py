"""Model specs with mechanisms, synapses and stimuli (used by C05-C10, C12, C19).

  {"morph": <morphology spec>,
   "channels": [{"mech": "HH", "name": None, "rows": [...], "params": {"gNa": [per row]...}, "states": {...}}],
   "edges": [{"pre": row, "post": row, "type": "IonotropicSynapse", "params": {...}, "states": {...}}],  # creation order
   "stim": [{"row": r, "samples": [...]}, ...],
   "nsteps": T, "dt": dt, "solver": ..., "backend": ...}
"""
from __future__ import annotations

import numpy as np
from hypothesis import strategies as st

from vp.gen.morph import fl

from vp.gen import morph as gm
from vp.ref import mech as R2

SYN_TYPES = ["IonotropicSynapse", "TestSynapse", "TanhRateSynapse"]
SOLVERS = ["bwd_euler", "crank_nicolson", "fwd_euler"]
BACKENDS = ["jaxley.stone", "jaxley.thomas", "jax.sparse"]


@st.composite
def channel_placement(draw, N, mechs=("HH", "Leak", "Na", "K", "Km", "CaL", "CaT"), max_ch=3, allow_rename=True,
                      per_row_params=True):
    out, used = [], set()
    for _ in range(draw(st.integers(1, max_ch))):
        mech = draw(st.sampled_from(list(mechs)))
        name = draw(st.sampled_from([None, None, None, mech + "b"])) if allow_rename else None
        if (name or mech) in used:
            continue
        used.add(name or mech)
        rows = list(range(N)) if draw(st.booleans()) else sorted(draw(st.sets(st.integers(0, N - 1), min_size=1, max_size=N)))
        table = R2.CHANNELS[mech]
        params = {}
        for k, dflt in table["params"].items():
            if k in table["globals"]:
                continue  # shared columns keep their defaults (set separately if at all)
            if k.startswith("g") and draw(st.booleans()):
                if per_row_params:
                    params[k] = [draw(gm.log_uniform(dflt * 0.1, dflt * 10)) for _ in rows]
                else:
                    params[k] = [draw(gm.log_uniform(dflt * 0.1, dflt * 10))] * len(rows)
        states = {}
        for g in table["states"]:
            if draw(st.booleans()):
                states[g] = [draw(fl(0.0, 1.0)) for _ in rows]
        out.append({"mech": mech, "name": name, "rows": rows, "params": params, "states": states})
    return out


@st.composite
def edge_list(draw, N, max_edges=5, types=SYN_TYPES, min_edges=1):
    edges = []
    for _ in range(draw(st.integers(min_edges, max_edges))):
        pre = draw(st.integers(0, N - 1))
        post = draw(st.integers(0, N - 2))
        post = post if post < pre else post + 1
        if edges and draw(st.integers(0, 2)) == 0 and edges[-1]["post"] != pre:
            post = edges[-1]["post"]  # fan-in onto the previous target
        t = draw(st.sampled_from(list(types)))
        table = R2.SYNAPSES[t]
        params = {}
        for k, dflt in table["params"].items():
            if k.startswith("g"):
                params[k] = draw(st.one_of(st.just(0.0), gm.log_uniform(1e-5, 1e-2), gm.log_uniform(1e-4, 1e-3)))
            elif k == "e_syn":
                params[k] = draw(fl(-90.0, 20.0))
            elif k == "k_minus":
                params[k] = draw(gm.log_uniform(0.005, 0.5))
            elif k == "x_offset":
                params[k] = draw(fl(-80.0, -40.0))
            elif k == "slope":
                params[k] = draw(gm.log_uniform(0.02, 0.5))
        states = {g: draw(fl(0.0, 1.0)) for g in table["states"]}
        edges.append({"pre": pre, "post": post, "type": t, "params": params, "states": states})
    return edges


@st.composite
def stimuli(draw, N, T, max_stim=3, min_stim=0):
    out = []
    for _ in range(draw(st.integers(min_stim, max_stim))):
        row = draw(st.integers(0, N - 1))
        kind = draw(st.sampled_from(["step", "free"]))
        if kind == "step":
            amp = draw(fl(-0.5, 2.0))
            a = draw(st.integers(0, T - 1))
            samples = [amp if i >= a else 0.0 for i in range(T)]
        else:
            samples = [draw(fl(-1.0, 2.0)) for _ in range(T)]
        out.append({"row": row, "samples": samples})
    return out


# -------------------------------------------------------------------------------------------
# building
# -------------------------------------------------------------------------------------------


def prefixed(mech, name, key):
    table = R2.CHANNELS.get(mech)
    if table is not None and key in table["globals"]:
        return key
    return f"{name or mech}_{key}"


def view_of(m, rows):
    return m.select(nodes=[int(r) for r in rows]) if len(m.nodes) > 1 else m


def insert_channels(m, channels):
    from vp.checks.c03 import _make

    for c in channels:
        ch = _make(c["mech"], c["name"])
        view_of(m, c["rows"]).insert(ch)
        for k, vals in c.get("params", {}).items():
            v = view_of(m, c["rows"])
            v.set(prefixed(c["mech"], c["name"], k), np.asarray(vals, float) if len(vals) > 1 else float(vals[0]))
        for k, vals in c.get("states", {}).items():
            v = view_of(m, c["rows"])
            v.set(prefixed(c["mech"], c["name"], k), np.asarray(vals, float) if len(vals) > 1 else float(vals[0]))


def make_syn(t):
    import jaxley.synapses as js

    return getattr(js, t)()


def connect_edges(net, edges, order=None, assign="select_edges"):
    """Create the edges in `order` (a permutation of range(len(edges))) and set their parameters.
    Returns the list mapping global edge index -> index into `edges`."""
    from jaxley.connect import connect

    order = list(range(len(edges))) if order is None else list(order)
    if assign == "interleaved":
        # set every synapse's parameters right after creating it, BEFORE the next connect() call
        for gi, k in enumerate(order):
            e = edges[k]
            connect(net.select(nodes=[int(e["pre"])]), net.select(nodes=[int(e["post"])]), make_syn(e["type"]))
            for key, val in {**e["params"], **e["states"]}.items():
                net.select(edges=[gi]).set(f"{e['type']}_{key}", float(val))
        return order
    for k in order:
        e = edges[k]
        connect(net.select(nodes=[int(e["pre"])]), net.select(nodes=[int(e["post"])]), make_syn(e["type"]))
    if assign == "select_edges":
        for gi, k in enumerate(order):
            e = edges[k]
            for key, val in {**e["params"], **e["states"]}.items():
                net.select(edges=[gi]).set(f"{e['type']}_{key}", float(val))
    elif assign == "type_view_edge":
        rank = {}
        for gi, k in enumerate(order):
            e = edges[k]
            r = rank.get(e["type"], 0)
            rank[e["type"]] = r + 1
            for key, val in {**e["params"], **e["states"]}.items():
                getattr(net, e["type"]).edge(r).set(f"{e['type']}_{key}", float(val))
    elif assign == "type_view_array":
        by_type = {}
        for gi, k in enumerate(order):
            by_type.setdefault(edges[k]["type"], []).append(k)
        for t, ks in by_type.items():
            keys = list(edges[ks[0]]["params"]) + list(edges[ks[0]]["states"])
            for key in keys:
                vals = [float({**edges[k]["params"], **edges[k]["states"]}[key]) for k in ks]
                getattr(net, t).set(f"{t}_{key}", np.asarray(vals) if len(vals) > 1 else vals[0])
    else:
        raise ValueError(assign)
    return order


def add_stimuli(m, stim):
    import jax.numpy as jnp

    for s in stim:
        view_of(m, [s["row"]]).stimulate(jnp.asarray(np.asarray(s["samples"], float)), verbose=False)


def build_model(spec, edge_order=None, assign="select_edges", with_stim=True, with_edges=True):
    from vp.build import build_module

    m = build_module(spec["morph"])
    insert_channels(m, spec.get("channels", []))
    if with_edges and spec.get("edges"):
        connect_edges(m, spec["edges"], edge_order, assign)
    if with_stim:
        add_stimuli(m, spec.get("stim", []))
    return m
