"""R1 - dense reference assembly of the compartmental cable equation (NumPy float64).

Independent of jaxley's numerical code. Absolute units: uF, mS, mV, ms, uA.

A model is given by
  parents : list[int]   parent branch of every branch (-1 for a root), network-wide indices
  ncomps  : list[int]   compartments per branch
  radius, length (um), axial_resistivity (ohm cm), capacitance (uF/cm^2)  per compartment
Branch points are extra zero-capacitance Kirchhoff nodes: one per branch that has children,
joined to that branch's last compartment and to the first compartment of every child by the
half-compartment axial conductance.
"""
from __future__ import annotations

import numpy as np


def areas_cm2(radius, length):
    return 2.0 * np.pi * np.asarray(radius, float) * np.asarray(length, float) * 1e-8


def half_resistance_ohm(radius, length, ra):
    radius, length, ra = (np.asarray(x, float) for x in (radius, length, ra))
    return ra * (length / 2.0 * 1e-4) / (np.pi * radius**2 * 1e-8)


class Cable:
    def __init__(self, parents, ncomps, radius, length, ra, cm):
        self.parents = [int(p) for p in parents]
        self.ncomps = [int(n) for n in ncomps]
        self.N = int(sum(self.ncomps))
        self.area = areas_cm2(radius, length)
        assert len(self.area) == self.N
        self.C = np.asarray(cm, float) * self.area  # uF
        Rh = half_resistance_ohm(radius, length, ra)
        cums = np.concatenate([[0], np.cumsum(self.ncomps)]).astype(int)
        self.cums = cums
        upar = sorted(set(p for p in self.parents if p >= 0))
        self.bp_of = {p: self.N + k for k, p in enumerate(upar)}
        self.M = self.N + len(upar)
        L = np.zeros((self.M, self.M))

        def add(a, b, g):
            L[a, a] += g
            L[b, b] += g
            L[a, b] -= g
            L[b, a] -= g

        for b in range(len(self.parents)):
            for k in range(cums[b], cums[b + 1] - 1):
                add(k, k + 1, 1e3 / (Rh[k] + Rh[k + 1]))
        for b, p in enumerate(self.parents):
            if p >= 0:
                add(cums[b], self.bp_of[p], 1e3 / Rh[cums[b]])
        for p in upar:
            last = cums[p + 1] - 1
            add(last, self.bp_of[p], 1e3 / Rh[last])
        self.L = L  # mS, full (compartments + branch points)

    # -----------------------------------------------------------------------------
    def reduced_laplacian(self):
        """Schur complement of the branch-point block: coupling among compartments only."""
        N = self.N
        if self.M == N:
            return self.L.copy()
        Lcc, Lcb = self.L[:N, :N], self.L[:N, N:]
        Lbb = self.L[N:, N:]
        return Lcc - Lcb @ np.linalg.solve(Lbb, Lcb.T)

    def system_bwd(self, dt, gm_mS, rhs_const_uA, v):
        """(A, b) of backward Euler on the full system incl. Kirchhoff rows."""
        M, N = self.M, self.N
        Cf = np.zeros(M)
        Cf[:N] = self.C
        gf = np.zeros(M)
        gf[:N] = gm_mS
        bf = np.zeros(M)
        bf[:N] = rhs_const_uA
        vf = np.zeros(M)
        vf[:N] = v
        A = np.diag(Cf / dt) + self.L + np.diag(gf)
        b = Cf / dt * vf + bf
        return A, b

    def step(self, scheme, dt, v, gm_mS, const_uA):
        """One voltage update. `gm_mS`: membrane conductance per compartment (mS);
        `const_uA`: voltage-independent inward current per compartment (uA), i.e.
        sum g*E + injected current. Returns new compartment voltages."""
        v = np.asarray(v, float)
        N = self.N
        if scheme == "bwd_euler":
            A, b = self.system_bwd(dt, gm_mS, const_uA, v)
            return np.linalg.solve(A, b)[:N]
        Lr = self.reduced_laplacian()
        Amat = Lr + np.diag(gm_mS)
        if scheme == "crank_nicolson":
            lhs = np.diag(self.C / dt) + Amat / 2.0
            rhs = (np.diag(self.C / dt) - Amat / 2.0) @ v + const_uA
            return np.linalg.solve(lhs, rhs)
        if scheme == "fwd_euler":
            return v + dt * (-(Amat @ v) + const_uA) / self.C
        raise ValueError(scheme)

    def backward_error(self, scheme, dt, v, v_new, gm_mS, const_uA):
        """Componentwise (Oettli-Prager) backward error of `v_new` as a solution of the
        scheme's linear system, and a forward error bound scale."""
        v = np.asarray(v, float)
        v_new = np.asarray(v_new, float)
        N = self.N
        if scheme == "bwd_euler":
            A, b = self.system_bwd(dt, gm_mS, const_uA, v)
            # eliminate the Kirchhoff nodes exactly for the residual: use the reduced system
        Lr = self.reduced_laplacian()
        Amat = Lr + np.diag(gm_mS)
        Cd = np.diag(self.C / dt)
        if scheme == "bwd_euler":
            lhs, rhs_terms = Cd + Amat, [Cd @ v, const_uA]
        elif scheme == "crank_nicolson":
            lhs, rhs_terms = Cd + Amat / 2.0, [Cd @ v, -(Amat / 2.0) @ v, const_uA]
        else:  # explicit: v_new is given by a formula; treat as identity system
            lhs = np.eye(N)
            rhs_terms = [v, -dt * (Amat @ v) / self.C, dt * const_uA / self.C]
        rhs = sum(rhs_terms)
        resid = np.abs(lhs @ v_new - rhs)
        scale = np.abs(lhs) @ np.abs(v_new) + sum(np.abs(t) for t in rhs_terms)
        cond = np.linalg.cond(lhs, np.inf)
        if scheme not in ("bwd_euler", "crank_nicolson"):
            # explicit update: the rounding error of evaluating (Amat @ v) is bounded componentwise by
            # eps * |Amat| |v| (not by eps * |Amat v|, which cancels for nearly uniform v): both this reference and
            # the library carry it, amplified by dt/C. It plays the role of the condition number here.
            scale = np.abs(v_new) + np.abs(v) + dt * (np.abs(Amat) @ np.abs(v)) / self.C + dt * np.abs(const_uA) / self.C
            cond = max(1.0, float(np.max(scale)) / max(1.0, float(np.max(np.abs(v_new)))))
        with np.errstate(divide="ignore", invalid="ignore"):
            be = np.where(scale > 0, resid / scale, 0.0)
        return float(np.max(be)), float(cond)
