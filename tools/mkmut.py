"""Create mutants/<name>.patch: python tools/mkmut.py <name> <file relative to /repo> <old> <new> [count]"""
import difflib, sys, os
name, rel, old, new = sys.argv[1:5]
src = open(os.path.join("/repo", rel)).read()
assert old in src, f"pattern not found in {rel}: {old!r}"
cnt = int(sys.argv[5]) if len(sys.argv) > 5 else 1
dst = src.replace(old, new, cnt)
diff = difflib.unified_diff(src.splitlines(True), dst.splitlines(True), "a/" + rel, "b/" + rel)
out = os.path.join(os.path.dirname(os.path.dirname(os.path.abspath(__file__))), "mutants", name + ".patch")
open(out, "w").writelines(diff)
print("wrote", out)
