"""C18 - modules survive pickling and deep copies unchanged and independent."""
from __future__ import annotations

import copy
import os
import pickle

import numpy as np
from hypothesis import strategies as st

from vp.gen.morph import fl
from vp import core, ops
from vp.gen import morph as gm

ID = "C18"
SWC_FILES = ["morph_minimal.swc", "morph_soma_both_ends.swc", "morph_250_single_point_soma.swc"]
RULE = (
    "Hypothesis draws a module (compartment, branch, irregular cell, network of 2-3 cells, or an SWC cell read from a repository "
    "file) and an editing history of up to 8 late-bound operations from the C19 alphabet (channels, groups, trainables, recordings, "
    "stimuli, clamps, synapses, set_ncomp), then one further operation. The module is copied with pickle.loads(pickle.dumps(m)) and "
    "copy.deepcopy(m). Oracles: (1) round trip - every public table, group, trainable, recording and input of each copy equals the "
    "original; (2) integrate, and jax.grad through integrate when trainables exist, give bit-identical results on original and "
    "copies; (3) independence - applying the further operation to a copy leaves the original's snapshot unchanged and vice versa; "
    "(4) a copied SWC cell can still change its number of compartments and gets the same radii as the original; (5) views (cell, branch, "
    "compartment, group, synapse-type views - they are modules too) copy with identical tables, scope and kind, and make_trainable through "
    "the copied view shares parameters exactly as through the original view. Non-trivial: "
    "history length >=3 containing at least one of {SWC cell, synapse, trainable, group, clamp}; distinct = hash(module, op log)."
)
ASSUMPTIONS = [
    "float64, CPU; identical means bit-identical on the same machine (same arithmetic on equal tables)",
    "histories stop at the first refused operation (refusals are C19's business)",
]
TECHNIQUE = "property-based testing (Hypothesis) over generated editing histories: round-trip (pickle / deepcopy) + independence (aliasing) oracle"
LEVEL_TEXT = (
    "Modules produced by generated editing histories are pickled and deep-copied; tables, simulations and gradients must be identical and "
    "a further edit of one object must not be visible in the other (no shared mutable state)."
)


def budget(tier):
    return 16 if tier == "quick" else 250


def wall_guard(tier):
    return 1500 if tier == "quick" else 7200


@st.composite
def _spec(draw, tier):
    kind = draw(st.sampled_from(["compartment", "branch", "cell", "cell", "network", "network", "swc"]))
    spec = {"kind": kind}
    if kind == "swc":
        spec["file"] = draw(st.sampled_from(SWC_FILES))
        spec["ncomp"] = draw(st.integers(1, 3))
    elif kind == "compartment":
        spec["cells"] = [{"parents": [-1], "ncomp": [1]}]
    elif kind == "branch":
        spec["cells"] = [{"parents": [-1], "ncomp": [draw(st.integers(1, 4))]}]
    elif kind == "cell":
        c = draw(gm.cell_struct(4, 3))
        if len(c["parents"]) == 1:
            c = {"parents": [-1, 0], "ncomp": c["ncomp"] + [2]}
        spec["cells"] = [c]
    else:
        spec["cells"] = [draw(gm.cell_struct(3, 3)) for _ in range(draw(st.integers(2, 3)))]
    network = kind == "network"
    spec["ops"] = [draw(ops.op_spec(network)) for _ in range(draw(st.integers(0, 8)))]
    spec["extra"] = draw(ops.op_spec(network))
    spec["backend"] = draw(st.sampled_from(["jaxley.stone", "jax.sparse"]))
    return spec


def strategy(tier):
    return _spec(tier)


def size(spec):
    return (len(spec["ops"]), core.spec_size(spec))


def build(spec):
    import jaxley as jx
    from vp.build import build_cell

    k = spec["kind"]
    if k == "swc":
        return jx.read_swc(os.path.join(core.REPO_DIR, "tests", "swc_files", spec["file"]), ncomp=int(spec["ncomp"]))
    if k == "compartment":
        return jx.Compartment()
    if k == "branch":
        return jx.Branch([jx.Compartment()] * spec["cells"][0]["ncomp"][0])
    if k == "cell":
        return build_cell(spec["cells"][0])
    return jx.Network([build_cell(c) for c in spec["cells"]])


def simulate(m, backend, with_grad):
    import jax
    import jax.numpy as jnp
    import jaxley as jx

    kw = dict(delta_t=0.025, voltage_solver=backend)
    if not m.externals:
        kw["t_max"] = 3.5 * 0.025
    params = m.get_parameters()
    out = np.asarray(jx.integrate(m, params=params, **kw), float)
    g = None
    if with_grad and params:
        def loss(p):
            return jnp.sum(jx.integrate(m, params=p, **kw) ** 2) * 1e-4
        g = [np.asarray(next(iter(d.values())), float) for d in jax.grad(loss)(params)]
    return out, g


def _judge_view_copies(spec, out):
    from vp import snap

    m = build(spec)
    for op in spec["ops"]:
        if spec["kind"] in ("compartment", "branch") and op["op"] == "set_ncomp":
            continue
        rec = ops.resolve(m, op)
        if rec is None:
            continue
        _, err = core.call(ops.apply, m, rec)
        if err:
            return False  # refused histories are not this clause's business
    if ops.invariants(m) or len(m.nodes) < 2 or m.trainable_params:
        return False
    views = {}
    nb = int(m.nodes["global_branch_index"].max()) + 1
    if spec["kind"] == "network":
        views["cell"] = lambda mm: mm.cell([0, 1]) if int(mm.nodes["global_cell_index"].max()) >= 1 else mm.cell(0)
    if spec["kind"] in ("cell", "network", "swc") and nb >= 2:
        views["branch"] = lambda mm: mm.branch([0, 1])
    views["comp"] = lambda mm: mm.scope("global").comp([0, 1])
    for g in list(m.groups)[:1]:
        views["group"] = lambda mm, g=g: getattr(mm, g)
    if len(m.edges):
        t = m.edges["type"].iloc[0]
        views["syn"] = lambda mm, t=t: getattr(mm, t).edge("all")
    for name, mk in views.items():
        v, err = core.call(mk, m)
        if err:
            continue
        for how in ("pickle", "deepcopy"):
            try:
                c = pickle.loads(pickle.dumps(v)) if how == "pickle" else copy.deepcopy(v)
            except Exception as e:  # noqa: BLE001
                out.violate(f"view-copy:{how}", f"{how} of the {name} view raised {type(e).__name__}: {str(e)[:160]}")
                return True
            out.evals += 1
            out.classes.append("view copy:" + name)
            for tname in ("nodes", "edges"):
                a, b = getattr(v, tname), getattr(c, tname)
                cells, notes = snap.df_diff(a, b, ignore_cols=())
                if cells or notes:
                    out.violate(f"view-copy:{how}", f"{how} copy of the {name} view differs in .{tname}: {sorted(cells)[:5]} {notes[:2]}")
                    return True
            if getattr(v, "_scope", None) != getattr(c, "_scope", None) or getattr(v, "_current_view", None) != getattr(c, "_current_view", None):
                out.violate(f"view-copy:{how}", f"{how} copy of the {name} view has scope/kind {c._scope}/{c._current_view}, original {v._scope}/{v._current_view}")
                return True
            # parameter sharing through the copied view
            key = "radius" if name != "syn" else None
            if key:
                m1 = copy.deepcopy(m)
                v1 = mk(m1)
                c1 = pickle.loads(pickle.dumps(v1)) if how == "pickle" else copy.deepcopy(v1)
                _, e1 = core.call(lambda: v1.make_trainable(key, verbose=False))
                _, e2 = core.call(lambda: c1.make_trainable(key, verbose=False))
                if (e1 is None) != (e2 is None):
                    out.violate(f"view-copy:{how}", f"make_trainable({key}) through the {how} copy of the {name} view: original {'ok' if e1 is None else e1.short()}, copy {'ok' if e2 is None else e2.short()}")
                    return True
                if e1 is None:
                    i1 = [np.asarray(x).tolist() for x in m1.indices_set_by_trainables]
                    i2 = [np.asarray(x).tolist() for x in c1.base.indices_set_by_trainables]
                    if i1 != i2:
                        out.violate(f"view-copy:{how}", f"make_trainable({key}) through the {how} copy of the {name} view shares parameters as {i2}, through the original view as {i1}")
                        return True
    return False


def judge(spec, tier="quick"):
    from vp import snap

    out = core.Outcome()
    m, err = core.call(build, spec)
    if err:
        out.internal_crashes.append(f"build:{err.etype}@{err.frame}")
        return out
    log = []
    for op in spec["ops"]:
        if spec["kind"] in ("compartment", "branch") and op["op"] == "set_ncomp":
            continue
        rec = ops.resolve(m, op)
        if rec is None:
            continue
        _, err = core.call(ops.apply, m, rec)
        if err:
            out.refusals.append(f"{rec['op']}:{err.etype}")
            # a failed op may have half-modified the module: rebuild up to the last good op
            m = build(spec)
            for r in log:
                ops.apply(m, r)
            break
        log.append(rec)
    kinds = {r["op"] for r in log}
    if ops.invariants(m):
        out.notes.append("module inconsistent after history (C19's business): " + ops.invariants(m)[0][0])
        return out
    interesting = spec["kind"] == "swc" or kinds & {"connect", "make_trainable", "add_to_group", "clamp"}
    if len(log) >= 3 and interesting:
        out.nontrivial_keys.append(core.h([spec["kind"], spec.get("cells") or spec.get("file"), log]))
    out.classes.append("kind:" + spec["kind"])
    for k in kinds:
        out.classes.append("op:" + k)
    label = f"{spec['kind']} {spec.get('cells') or spec.get('file')} after {log}"
    s_orig = snap.snapshot(m)
    copies = {}
    # exceptions of pickle / deepcopy are raised inside the standard library (no jaxley frame): they are
    # violations here by definition ("any module reachable through the public API survives")
    try:
        copies["pickle"] = pickle.loads(pickle.dumps(m))
    except Exception as e:  # noqa: BLE001
        out.violate("pickle-raises", f"pickle round trip raised {type(e).__name__}: {str(e)[:200]}; {label}", etype=type(e).__name__)
        return out
    try:
        copies["deepcopy"] = copy.deepcopy(m)
    except Exception as e:  # noqa: BLE001
        out.violate("deepcopy-raises", f"deepcopy raised {type(e).__name__}: {str(e)[:200]}; {label}", etype=type(e).__name__)
        return out
    # (1) round trip
    for name, c in copies.items():
        out.evals += 1
        d = snap.diff_snapshots(s_orig, snap.snapshot(c))
        if d:
            detail = {kk: (sorted(v["cells"])[:5], v["notes"][:2]) if isinstance(v, dict) else v for kk, v in d.items()}
            out.violate(f"roundtrip:{name}", f"{name} copy differs from the original in {detail}; {label}")
            return out
        if type(c) is not type(m) or [ch._name for ch in c.channels] != [ch._name for ch in m.channels] or c.synapse_names != m.synapse_names:
            out.violate(f"roundtrip:{name}", f"{name} copy has type/mechanisms {type(c).__name__}/{[ch._name for ch in c.channels]}; {label}")
            return out
    # (2) identical simulation and gradient
    has_rec = len(m.recordings) > 0
    if not has_rec:
        for obj in [m] + list(copies.values()):
            obj.record("v", verbose=False)
        s_orig = snap.snapshot(m)
    with_grad = bool(m.trainable_params) and not any(next(iter(p)) in ("v",) for p in m.trainable_params)
    r0, err = core.call(simulate, m, spec["backend"], with_grad)
    backend = spec["backend"]
    if err and backend != "jax.sparse":
        backend = "jax.sparse"
        r0, err = core.call(simulate, m, backend, with_grad)
    if err:
        out.notes.append("original cannot be simulated: " + err.short()[:100])
    else:
        for name, c in copies.items():
            r1, err = core.call(simulate, c, backend, with_grad)
            out.evals += 1
            if err:
                out.violate(f"simulate:{name}", f"the original simulates but its {name} copy raises {err.short()}; {label}", etype=err.etype, frame=err.frame)
                return out
            if r1[0].shape != r0[0].shape or not np.array_equal(r1[0], r0[0], equal_nan=True):
                out.violate(f"simulate:{name}", f"{name} copy simulates differently (max diff {np.nanmax(np.abs(r1[0] - r0[0])) if r1[0].shape == r0[0].shape else r1[0].shape}); {label}")
                return out
            if r0[1] is not None:
                out.evals += 1
                out.classes.append("gradient compared")
                if any(a.shape != b.shape or not np.array_equal(a, b, equal_nan=True) for a, b in zip(r0[1], r1[1])):
                    out.violate(f"gradient:{name}", f"{name} copy gives a different gradient; {label}")
                    return out
    # (3) independence
    for name, c in copies.items():
        rec = ops.resolve(c, spec["extra"])
        if rec is None or (spec["kind"] in ("compartment", "branch") and rec["op"] == "set_ncomp"):
            continue
        s_c = snap.snapshot(c)
        _, err = core.call(ops.apply, c, rec)
        out.evals += 1
        d = snap.diff_snapshots(s_orig, snap.snapshot(m))
        if d:
            out.violate(f"independence:{name}", f"applying {rec} to the {name} copy changed the original's {sorted(d)}; {label}")
            return out
        if err:
            continue
    rec = ops.resolve(m, spec["extra"])
    if rec is not None and not (spec["kind"] in ("compartment", "branch") and rec["op"] == "set_ncomp"):
        try:
            fresh = {"pickle": pickle.loads(pickle.dumps(m)), "deepcopy": copy.deepcopy(m)}
        except Exception as e:  # noqa: BLE001
            out.violate("pickle-raises", f"copying after the first round trip raised {type(e).__name__}: {str(e)[:200]}; {label}", etype=type(e).__name__)
            return out
        snaps = {k: snap.snapshot(v) for k, v in fresh.items()}
        _, err = core.call(ops.apply, m, rec)
        for name, c in fresh.items():
            out.evals += 1
            d = snap.diff_snapshots(snaps[name], snap.snapshot(c))
            if d:
                out.violate(f"independence:{name}", f"applying {rec} to the original changed its {name} copy's {sorted(d)}; {label}")
                return out
    # (5) views are modules too: a pickled / deep-copied view shows the same tables and shares parameters the same way
    bad = _judge_view_copies(spec, out)
    if bad:
        return out
    # (4) an SWC copy can still be re-discretised
    if spec["kind"] == "swc" and not kinds & {"record", "stimulate", "clamp", "make_trainable", "record_edge", "insert", "set"}:
        m2 = build(spec)
        try:
            c2 = pickle.loads(pickle.dumps(m2))
        except Exception as e:  # noqa: BLE001
            out.violate("pickle-raises", f"pickling a freshly read SWC cell raised {type(e).__name__}: {str(e)[:200]}")
            return out
        nb = int(m2.nodes["global_branch_index"].max()) + 1
        if nb >= 2:
            a, e1 = core.call(lambda: (m2.branch(1).set_ncomp(4), m2.nodes["radius"].to_numpy(float))[1])
            b, e2 = core.call(lambda: (c2.branch(1).set_ncomp(4), c2.nodes["radius"].to_numpy(float))[1])
            out.evals += 1
            out.classes.append("swc set_ncomp after pickle")
            if (e1 is None) != (e2 is None) or (e1 is None and not np.array_equal(a, b)):
                out.violate("swc-radius-functions", f"set_ncomp on a pickled SWC cell: original {'ok' if e1 is None else e1.short()}, copy {'ok' if e2 is None else e2.short()}; "
                            f"radii equal: {e1 is None and e2 is None and bool(np.array_equal(a, b))}")
    return out


PREDICATES = {}
