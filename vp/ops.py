"""Operation alphabet for editing histories (C18, C19): late-bound op specs, interpreter,
footprints (frame conditions) and consistency invariants.

An op spec is JSON with *fractions* for targets, resolved against the module's current size:
  {"op": "insert", "mech": "HH", "rows": [0.1, 0.7]}           rows = sorted({int(f*N)})
  {"op": "set_ncomp", "branch": 0.4, "n": 3}                    branch = int(f*nbranches)
`resolve()` turns it into a concrete record (the op-log entry); `apply()` executes the record
through the public API; `footprint()` says what the record is allowed to change.
"""
from __future__ import annotations

import numpy as np
from hypothesis import strategies as st

from vp.gen.morph import fl
from vp.ref import mech as R2

MECHS = ["HH", "Leak", "Na", "K", "Km", "CaL", "CaT"]
SYN = ["IonotropicSynapse", "TestSynapse", "TanhRateSynapse"]
NODE_KEYS = ["radius", "length", "axial_resistivity", "capacitance", "v"]
L_INPUT = 4  # samples of every stimulus / clamp in a history


# ------------------------------------------------------------------------------------------
# strategies
# ------------------------------------------------------------------------------------------

ROWS = st.one_of(st.just("all"), st.lists(fl(0.0, 0.999), min_size=1, max_size=3))


@st.composite
def op_spec(draw, network):
    kinds = ["insert", "insert", "delete_channel", "set", "set", "add_to_group", "record", "record", "delete_recordings",
             "stimulate", "clamp", "delete_stimuli", "delete_clamps", "make_trainable", "delete_trainables", "init_states"]
    kinds += ["connect", "connect", "set_edge", "record_edge", "make_trainable_edge", "make_trainable_edge", "delete_trainables_edge"] if network else ["set_ncomp", "set_ncomp"]
    k = draw(st.sampled_from(kinds))
    op = {"op": k}
    if k == "insert":
        op.update(mech=draw(st.sampled_from(MECHS)), rows=draw(ROWS))
    elif k == "delete_channel":
        op.update(mech=draw(st.sampled_from(MECHS)), rows=draw(ROWS), pick=draw(fl(0.0, 0.999)))
    elif k == "set":
        op.update(key=draw(st.sampled_from(NODE_KEYS + ["chan_param", "chan_state"])), rows=draw(ROWS), pick=draw(fl(0.0, 0.999)), u=draw(fl(0.0, 1.0)))
    elif k == "set_ncomp":
        op.update(branch=draw(fl(0.0, 0.999)), n=draw(st.integers(1, 4)))
    elif k == "add_to_group":
        op.update(name=draw(st.sampled_from(["grpA", "grpB"])), rows=draw(ROWS))
    elif k == "record":
        op.update(state=draw(st.sampled_from(["v", "v", "chan_state", "chan_current"])), rows=draw(ROWS), pick=draw(fl(0.0, 0.999)))
    elif k in ("delete_recordings", "delete_stimuli", "delete_trainables"):
        op.update(rows=draw(ROWS))
    elif k == "delete_clamps":
        op.update(rows=draw(ROWS), state=draw(st.sampled_from([None, "v"])))
    elif k == "stimulate":
        op.update(rows=draw(ROWS), amp=draw(fl(-0.2, 0.5)))
    elif k == "clamp":
        op.update(state=draw(st.sampled_from(["v", "chan_state"])), rows=draw(ROWS), pick=draw(fl(0.0, 0.999)), u=draw(fl(0.0, 1.0)))
    elif k == "make_trainable":
        op.update(key=draw(st.sampled_from(NODE_KEYS[:4] + ["chan_param", "v"])), rows=draw(ROWS), pick=draw(fl(0.0, 0.999)))
    elif k == "connect":
        op.update(pre=draw(fl(0.0, 0.999)), post=draw(fl(0.0, 0.999)), type=draw(st.sampled_from(SYN)))
    elif k == "set_edge":
        op.update(pick=draw(fl(0.0, 0.999)), edges=draw(ROWS), u=draw(fl(0.0, 1.0)))
    elif k == "record_edge":
        op.update(pick=draw(fl(0.0, 0.999)), edges=draw(ROWS))
    elif k == "make_trainable_edge":
        op.update(pick=draw(fl(0.0, 0.999)), edges=draw(ROWS), u=draw(fl(0.0, 1.0)))
    elif k == "delete_trainables_edge":
        op.update(pick=draw(fl(0.0, 0.999)), edges=draw(ROWS))
    return op


# ------------------------------------------------------------------------------------------
# resolution against the current module
# ------------------------------------------------------------------------------------------


def _rows(sel, n):
    if sel == "all":
        return list(range(n))
    return sorted({min(int(f * n), n - 1) for f in sel})


def _pick(lst, f):
    return lst[min(int(f * len(lst)), len(lst) - 1)] if lst else None


def chan_table(m):
    """name -> (class name, rows that carry it)"""
    out = {}
    for c in m.base.channels:
        out[c._name] = (type(c).__name__, [int(i) for i in m.base.nodes.index[m.base.nodes[c._name].astype(bool)]])
    return out


def resolve(m, op):
    """Concrete record for `op` on the current module, or None if it does not apply."""
    N = len(m.base.nodes)
    k = op["op"]
    chans = chan_table(m)
    if k == "insert":
        return {"op": k, "mech": op["mech"], "rows": _rows(op["rows"], N)}
    if k == "delete_channel":
        names = sorted(chans)
        # a deletion that belongs to a particular earlier insertion names its mechanism; otherwise any present channel
        name = op["mech"] if (op.get("same_as_insert") or op.get("exact")) and op.get("mech") in chans else _pick(names, op["pick"])
        if name is None:
            return None
        rows = _rows(op["rows"], N)
        return {"op": k, "mech": chans[name][0], "name": name, "rows": rows, "in_view": bool(set(rows) & set(chans[name][1]))}
    if k == "set":
        rows = _rows(op["rows"], N)
        key = op["key"]
        if key in ("chan_param", "chan_state"):
            name = op["mech"] if op.get("mech") in chans else _pick(sorted(chans), op["pick"])
            if name is None:
                return None
            table = R2.CHANNELS[chans[name][0]]
            pool = [p for p in table["params"] if p not in table["globals"]] if key == "chan_param" else list(table["states"])
            p = _pick(pool, op["u"])
            if p is None:
                return None
            key = f"{name}_{p}"
            dflt = {**table["params"], **table["states"]}[p]
            val = float(dflt) * (0.5 + op["u"]) if key.split("_")[-1].startswith("g") else float(0.05 + 0.9 * op["u"])
        else:
            lo, hi = {"radius": (0.5, 5.0), "length": (5.0, 50.0), "axial_resistivity": (100.0, 3000.0), "capacitance": (0.5, 2.0), "v": (-75.0, -55.0)}[key]
            val = float(lo + (hi - lo) * op["u"])
        return {"op": k, "key": key, "rows": rows, "val": val}
    if k == "set_ncomp":
        nb = int(m.base.nodes["global_branch_index"].max()) + 1
        return {"op": k, "branch": min(int(op["branch"] * nb), nb - 1), "n": int(op["n"])}
    if k == "add_to_group":
        return {"op": k, "name": op["name"], "rows": _rows(op["rows"], N)}
    if k == "record":
        rows = _rows(op["rows"], N)
        state = op["state"]
        if state in ("chan_state", "chan_current"):
            name = _pick(sorted(chans), op["pick"])
            if name is None:
                return None
            cls, owners = chans[name]
            table = R2.CHANNELS[cls]
            if state == "chan_state":
                g = _pick(list(table["states"]), op["pick"])
                if g is None:
                    return None
                state = f"{name}_{g}"
            else:
                state = table["current_name"].format(name=name)
            rows = sorted(set(rows) & set(owners))  # a state is recorded only where it exists
            if not rows:
                return None
        return {"op": k, "state": state, "rows": rows}
    if k in ("delete_recordings", "delete_stimuli", "delete_trainables"):
        return {"op": k, "rows": _rows(op["rows"], N), "whole": op["rows"] == "all"}
    if k == "delete_clamps":
        return {"op": k, "rows": _rows(op["rows"], N), "whole": op["rows"] == "all", "state": op["state"]}
    if k == "stimulate":
        return {"op": k, "rows": _rows(op["rows"], N), "amp": float(op["amp"])}
    if k == "clamp":
        rows = _rows(op["rows"], N)
        state = op["state"]
        val = float(-70.0 + 20.0 * op["u"])
        if state == "chan_state":
            name = _pick(sorted(chans), op["pick"])
            if name is None:
                return None
            cls, owners = chans[name]
            g = _pick(list(R2.CHANNELS[cls]["states"]), op["pick"])
            if g is None:
                return None
            state = f"{name}_{g}"
            rows = sorted(set(rows) & set(owners))
            val = float(0.05 + 0.9 * op["u"])
            if not rows:
                return None
        return {"op": k, "state": state, "rows": rows, "val": val}
    if k == "make_trainable":
        rows = _rows(op["rows"], N)
        key = op["key"]
        if key == "chan_param":
            name = _pick(sorted(chans), op["pick"])
            if name is None:
                return None
            cls, owners = chans[name]
            table = R2.CHANNELS[cls]
            p = _pick([p for p in table["params"] if p not in table["globals"]], op["pick"])
            key = f"{name}_{p}"
            rows = sorted(set(rows) & set(owners))
            if not rows:
                return None
        return {"op": k, "key": key, "rows": rows}
    if k == "connect":
        if N < 2:
            return None
        pre = min(int(op["pre"] * N), N - 1)
        post = min(int(op["post"] * (N - 1)), N - 2)
        post = post if post < pre else post + 1
        return {"op": k, "pre": pre, "post": post, "type": op["type"]}
    if k in ("set_edge", "record_edge", "make_trainable_edge", "delete_trainables_edge"):
        ed = m.base.edges
        if len(ed) == 0:
            return None
        t = _pick(sorted(set(ed["type"])), op["pick"])
        ids = [int(i) for i in ed.index[ed["type"] == t]]
        sel = ids if op["edges"] == "all" else sorted({ids[min(int(f * len(ids)), len(ids) - 1)] for f in op["edges"]})
        table = R2.SYNAPSES[t]
        if k == "set_edge":
            p = _pick(list(table["params"]) + list(table["states"]), op["u"])
            val = float(1e-4 + 1e-3 * op["u"]) if p.startswith("g") else (float(0.05 + 0.9 * op["u"]) if p in table["states"] else float({**table["params"]}[p]) * (0.5 + op["u"]))
            return {"op": k, "key": f"{t}_{p}", "edges": sel, "val": val}
        if k == "make_trainable_edge":
            # synaptic parameters and synaptic states (trainable initial states) live in the edge table
            p = _pick(list(table["params"]) + list(table["states"]), op["u"])
            if p is None:
                return None
            return {"op": k, "key": f"{t}_{p}", "edges": sel}
        if k == "delete_trainables_edge":
            pre = [int(x) for x in ed.loc[sel, "pre_global_comp_index"]] if "pre_global_comp_index" in ed.columns else [int(x) for x in ed.loc[sel, "global_pre_comp_index"]]
            post = [int(x) for x in ed.loc[sel, "post_global_comp_index"]] if "post_global_comp_index" in ed.columns else [int(x) for x in ed.loc[sel, "global_post_comp_index"]]
            return {"op": "delete_trainables", "via": "edges", "edges": sel, "rows": sorted(set(pre) | set(post)), "whole": False}
        pool = list(table["states"]) + ["__current__"]
        p = _pick(pool, op["pick"])
        state = f"i_{t}" if p == "__current__" else f"{t}_{p}"
        return {"op": k, "state": state, "edges": sel}
    if k == "init_states":
        return {"op": k}
    raise ValueError(k)


# ------------------------------------------------------------------------------------------
# interpreter
# ------------------------------------------------------------------------------------------


def nview(m, rows):
    if len(rows) == len(m.base.nodes):
        return m  # the module itself ("whole module" calls)
    return m.select(nodes=[int(r) for r in rows])


def apply(m, rec):
    import jax.numpy as jnp
    import jaxley.channels as jc
    import jaxley.synapses as js
    from jaxley.connect import connect

    k = rec["op"]
    if k == "insert":
        nview(m, rec["rows"]).insert(getattr(jc, rec["mech"])())
    elif k == "delete_channel":
        cls = getattr(jc, rec["mech"])
        ch = cls() if rec["name"] == rec["mech"] else cls(rec["name"])
        nview(m, rec["rows"]).delete_channel(ch)
    elif k == "set":
        nview(m, rec["rows"]).set(rec["key"], rec["val"])
    elif k == "set_ncomp":
        m.branch(rec["branch"]).set_ncomp(rec["n"])
    elif k == "add_to_group":
        nview(m, rec["rows"]).add_to_group(rec["name"])
    elif k == "record":
        nview(m, rec["rows"]).record(rec["state"], verbose=False)
    elif k == "delete_recordings":
        nview(m, rec["rows"]).delete_recordings()
    elif k == "stimulate":
        nview(m, rec["rows"]).stimulate(rec["amp"] * jnp.ones(L_INPUT), verbose=False)
    elif k == "clamp":
        nview(m, rec["rows"]).clamp(rec["state"], rec["val"] * jnp.ones(L_INPUT), verbose=False)
    elif k == "delete_stimuli":
        nview(m, rec["rows"]).delete_stimuli()
    elif k == "delete_clamps":
        nview(m, rec["rows"]).delete_clamps(rec["state"])
    elif k == "make_trainable":
        nview(m, rec["rows"]).make_trainable(rec["key"], verbose=False)
    elif k == "delete_trainables":
        if rec.get("via") == "edges":
            m.select(edges=rec["edges"]).delete_trainables()
        else:
            nview(m, rec["rows"]).delete_trainables()
    elif k == "make_trainable_edge":
        m.select(edges=rec["edges"]).make_trainable(rec["key"], verbose=False)
    elif k == "connect":
        connect(m.select(nodes=[rec["pre"]]), m.select(nodes=[rec["post"]]), getattr(js, rec["type"])())
    elif k == "set_edge":
        m.select(edges=rec["edges"]).set(rec["key"], rec["val"])
    elif k == "record_edge":
        m.select(edges=rec["edges"]).record(rec["state"], verbose=False)
    elif k == "init_states":
        m.init_states()
    else:
        raise ValueError(k)


# ------------------------------------------------------------------------------------------
# documented preconditions (a violated precondition makes a refusal legitimate)
# ------------------------------------------------------------------------------------------


def precondition_violated(m, rec):
    """Reason why the library may legitimately refuse `rec`, or None."""
    b = m.base
    k = rec["op"]
    if k == "set_ncomp":
        if len(b.externals) or len(b.recordings) or len(b.trainable_params):
            return "set_ncomp with recordings/stimuli/trainables present"
        if type(b).__name__ == "Network":
            return "set_ncomp on a network"
        nb = int(b.nodes["global_branch_index"].max()) + 1
        if nb == 1:
            return "set_ncomp on all branches of a cell"
        rows = b.nodes[b.nodes["global_branch_index"] == rec["branch"]]
        for col in rows.columns:
            if col.startswith(("global_", "local_")) or col in ("controlled_by_param", "x", "y", "z"):
                continue
            vals = rows[col].to_numpy()
            if len({repr(v) for v in vals}) > 1:
                return f"branch not uniform in {col}"
        return None
    if k == "delete_channel" and not rec["in_view"]:
        return "channel not in view"
    if k == "make_trainable":
        if rec["key"] not in b.nodes.columns:
            return "key missing"
    if k == "clamp" and rec["state"] != "v":
        return None
    return None


# ------------------------------------------------------------------------------------------
# footprints (what an op may change) - everything else must be bit-identical
# ------------------------------------------------------------------------------------------


def footprint(m_before_snapshot, rec):
    """(allowed attribute names, predicate on changed node cells, predicate on changed edge cells)"""
    k = rec["op"]
    rows = set(rec.get("rows", []))
    none = lambda cell: False
    if k == "insert":
        table = R2.CHANNELS[rec["mech"]]
        cols = {rec["mech"]} | {p if p in table["globals"] else f"{rec['mech']}_{p}" for p in table["params"]} | {f"{rec['mech']}_{g}" for g in table["states"]}
        return {"nodes", "channels", "membrane_current_names"}, (lambda c: c[1] in cols and (c[0] in rows)), none, cols
    if k == "delete_channel":
        table = R2.CHANNELS[rec["mech"]]
        name = rec["name"]
        cols = {name} | {p if p in table["globals"] else f"{name}_{p}" for p in table["params"]} | {f"{name}_{g}" for g in table["states"]}
        return {"nodes", "channels", "membrane_current_names"}, (lambda c: c[1] in cols and c[0] in rows), none, cols
    if k == "set":
        return {"nodes"}, (lambda c: c[1] == rec["key"] and c[0] in rows), none, set()
    if k == "set_edge":
        es = set(rec["edges"])
        return {"edges"}, none, (lambda c: c[1] == rec["key"] and c[0] in es), set()
    if k == "add_to_group":
        return {"groups"}, none, none, set()
    if k in ("record", "record_edge", "delete_recordings"):
        return {"recordings"}, none, none, set()
    if k in ("stimulate", "clamp", "delete_stimuli", "delete_clamps"):
        return {"externals", "external_inds"}, none, none, set()
    if k in ("make_trainable", "make_trainable_edge", "delete_trainables"):
        return {"trainable_params", "indices_set_by_trainables"}, none, none, set()
    if k == "connect":
        return {"edges", "synapse_names"}, none, (lambda c: True), set()
    if k == "init_states":
        return {"nodes"}, (lambda c: True), none, set()
    return None


# ------------------------------------------------------------------------------------------
# consistency invariants
# ------------------------------------------------------------------------------------------


def invariants(m):
    """List of (clause, message) for every violated consistency invariant of the tables."""
    b = m.base
    nodes, edges = b.nodes, b.edges
    N = len(nodes)
    bad = []
    if list(nodes.index) != list(range(N)) or list(nodes["global_comp_index"]) != list(range(N)):
        bad.append(("indices", f"node index / global_comp_index is not 0..{N - 1}: {list(nodes['global_comp_index'])[:12]}"))
    gb = nodes["global_branch_index"].to_numpy()
    gc = nodes["global_cell_index"].to_numpy()
    if N and (gb[0] != 0 or np.any(np.diff(gb) < 0) or np.any(np.diff(gb) > 1) or np.any(np.diff(gc) < 0) or np.any(np.diff(gc) > 1) or gc[0] != 0):
        bad.append(("indices", f"branch/cell indices are not contiguous and nested: branches {gb.tolist()[:16]}, cells {gc.tolist()[:16]}"))
    if len(np.asarray(b.comb_parents)) != (int(gb.max()) + 1 if N else 0):
        bad.append(("indices", f"comb_parents has {len(np.asarray(b.comb_parents))} entries for {int(gb.max()) + 1} branches"))
    # channels
    names = [c._name for c in b.channels]
    if len(set(names)) != len(names):
        bad.append(("channels", f"channel registered twice: {names}"))
    owners = {}  # column -> rows that need it
    for c in b.channels:
        name = c._name
        if name not in nodes.columns:
            bad.append(("channels", f"registered channel {name} has no flag column"))
            continue
        col = nodes[name]
        if not all(isinstance(x, (bool, np.bool_)) for x in col):
            bad.append(("channels", f"flag column {name} is not boolean: {col.tolist()[:8]}"))
            continue
        present = set(int(i) for i in nodes.index[col.astype(bool)])
        if not present:
            bad.append(("channels", f"channel {name} is registered but present nowhere"))
        for key in list(c.channel_params) + list(c.channel_states):
            owners.setdefault(key, set()).update(present)
        if c.current_name not in b.membrane_current_names:
            bad.append(("channels", f"current {c.current_name} of channel {name} is not in membrane_current_names"))
    for key, need in owners.items():
        if key not in nodes.columns:
            bad.append(("channel-params", f"column {key} (needed by a registered channel in rows {sorted(need)[:8]}) is missing"))
            continue
        have = set(int(i) for i in nodes.index[~nodes[key].isna()])
        if have != need:
            miss, extra = sorted(need - have), sorted(have - need)
            bad.append(("channel-params", f"column {key}: " + (f"NaN in rows {miss[:8]} that carry an owning channel; " if miss else "") + (f"values in rows {extra[:8]} that carry no owning channel" if extra else "")))
    known_cols = set(owners) | set(names)
    # columns of a channel that is no longer registered (left behind by a deletion). Only columns that carry the
    # name of a built-in mechanism are judged: a new bookkeeping column added by the library is not an inconsistency.
    mech_prefixes = tuple(m_ + "_" for m_ in MECHS)
    for col in nodes.columns:
        if col in known_cols or not (col.startswith(mech_prefixes) or col in MECHS):
            continue
        bad.append(("channels", f"column {col} belongs to no registered channel"))
    cur_names = {c.current_name for c in b.channels}
    if set(b.membrane_current_names) != cur_names:
        bad.append(("channels", f"membrane_current_names {b.membrane_current_names} != currents of registered channels {sorted(cur_names)}"))
    # edges
    ne = len(edges)
    if ne:
        if list(edges.index) != list(range(ne)) or list(edges["global_edge_index"]) != list(range(ne)):
            bad.append(("edges", f"edge index is not 0..{ne - 1}"))
        for col in ("pre_global_comp_index", "post_global_comp_index"):
            v = edges[col].to_numpy()
            if np.any(v < 0) or np.any(v >= N):
                bad.append(("edges", f"{col} refers to compartments outside 0..{N - 1}: {v.tolist()}"))
        if set(edges["type"]) != set(b.synapse_names):
            bad.append(("edges", f"edge types {sorted(set(edges['type']))} != registered synapses {b.synapse_names}"))
    # recordings
    comp_states, edge_states = b._get_state_names()
    if len(b.recordings):
        for idx, state in zip(b.recordings["rec_index"], b.recordings["state"]):
            if state in comp_states:
                if not (0 <= int(idx) < N):
                    bad.append(("recordings", f"recording of {state} refers to compartment {idx} (module has {N})"))
            elif state in edge_states:
                if not (0 <= int(idx) < ne):
                    bad.append(("recordings", f"recording of {state} refers to synapse {idx} (module has {ne})"))
            else:
                bad.append(("recordings", f"recording of {state}: the module has no such state any more"))
        if b.recordings.duplicated().any():
            bad.append(("recordings", "duplicate recordings"))
    # externals
    if set(b.externals) != set(b.external_inds):
        bad.append(("externals", f"externals keys {sorted(b.externals)} != external_inds keys {sorted(b.external_inds)}"))
    for key in b.externals:
        vals, inds = np.asarray(b.externals[key]), np.asarray(b.external_inds.get(key, []))
        if vals.ndim != 2 or len(vals) != len(inds):
            bad.append(("externals", f"externals[{key}] has shape {vals.shape} for {len(inds)} targets"))
        lim = ne if key in edge_states else N
        if len(inds) and (inds.min() < 0 or inds.max() >= lim):
            bad.append(("externals", f"external_inds[{key}] = {inds.tolist()} outside 0..{lim - 1}"))
        if key != "i" and key not in comp_states + edge_states:
            bad.append(("externals", f"clamp of {key}: the module has no such state any more"))
    # groups
    for g, rows in b.groups.items():
        rows = np.asarray(rows)
        if len(rows) and (rows.min() < 0 or rows.max() >= N):
            bad.append(("groups", f"group {g} refers to rows {rows.tolist()} of a table with {N} rows"))
        if len(set(rows.tolist())) != len(rows):
            bad.append(("groups", f"group {g} lists a row twice: {rows.tolist()}"))
    # trainables
    if len(b.trainable_params) != len(b.indices_set_by_trainables):
        bad.append(("trainables", "trainable_params and indices_set_by_trainables differ in length"))
    for p, inds in zip(b.trainable_params, b.indices_set_by_trainables):
        key, val = next(iter(p.items()))
        inds = np.asarray(inds)
        table = nodes if key in nodes.columns else (edges if key in edges.columns else None)
        if table is None:
            bad.append(("trainables", f"trainable {key}: the module has no such parameter any more"))
            continue
        real = inds[inds >= 0]
        if len(real) and real.max() >= len(table):
            bad.append(("trainables", f"trainable {key} refers to rows {real.tolist()} of a table with {len(table)} rows"))
        if inds.ndim != 2 or inds.shape[0] != len(np.asarray(val)):
            bad.append(("trainables", f"trainable {key}: {len(np.asarray(val))} values for index array of shape {inds.shape}"))
    return bad
