import numpy as np
from jax import config
config.update('jax_enable_x64', True)
import jaxley as jx, jax.numpy as jnp
from jaxley.channels import Leak

def build_cell(parents, ncomps, rng, hetero=True):
    comp = jx.Compartment()
    branches = [jx.Branch([comp]*n) for n in ncomps]
    cell = jx.Cell(branches, parents=list(parents))
    cell.insert(Leak())
    N = len(cell.nodes)
    if hetero:
        cell.set('radius', rng.uniform(0.2, 5, N))
        cell.set('length', rng.uniform(1, 50, N))
        cell.set('axial_resistivity', rng.uniform(50, 5000, N))
        cell.set('capacitance', rng.uniform(0.5, 2, N))
        cell.set('Leak_gLeak', rng.uniform(1e-5, 1e-3, N))
        cell.set('Leak_eLeak', rng.uniform(-80, -50, N))
        cell.set('v', rng.uniform(-90, 20, N))
    return cell

def reference_step(nodes, parents, ncomps, dt, i_nA=None, theta=1.0):
    """Independent dense assembly. Kirchhoff nodes at branch points with zero capacitance.
    Units: r um, l um, ra ohm cm, cm uF/cm2, g S/cm2, v mV, t ms, I nA."""
    r = nodes['radius'].to_numpy(float); l = nodes['length'].to_numpy(float)
    ra = nodes['axial_resistivity'].to_numpy(float); cm = nodes['capacitance'].to_numpy(float)
    g = nodes['Leak_gLeak'].to_numpy(float); e = nodes['Leak_eLeak'].to_numpy(float)
    v = nodes['v'].to_numpy(float)
    N = len(v)
    area = 2*np.pi*r*l*1e-8  # cm2
    C = cm*area*1e-6  # F   -> work in (uF, mS, mV, ms, uA): C uF = cm*area ; G mS ; I uA
    C = cm*area        # uF
    Gm = g*area*1e3    # mS
    # half-compartment axial resistance in ohm: ra[ohm cm]* (l/2 [um]*1e-4 cm) / (pi r^2 [um2]*1e-8 cm2)
    Rh = ra*(l/2*1e-4)/(np.pi*r**2*1e-8)  # ohm
    cums = np.concatenate([[0], np.cumsum(ncomps)])
    nb = len(parents)
    # branch points: one per unique parent
    upar = sorted(set(p for p in parents if p >= 0))
    bp_index = {p: N+k for k, p in enumerate(upar)}
    M = N + len(upar)
    G = np.zeros((M, M))  # conductance Laplacian in mS
    def add(a, b, cond):
        G[a,a]+=cond; G[b,b]+=cond; G[a,b]-=cond; G[b,a]-=cond
    for b in range(nb):
        for k in range(cums[b], cums[b+1]-1):
            add(k, k+1, 1e3/(Rh[k]+Rh[k+1]))
    for b, p in enumerate(parents):
        if p >= 0:
            add(cums[b], bp_index[p], 1e3/Rh[cums[b]])
    for p in upar:
        add(cums[p+1]-1, bp_index[p], 1e3/Rh[cums[p+1]-1])
    Cfull = np.concatenate([C, np.zeros(len(upar))])
    Gmf = np.concatenate([Gm, np.zeros(len(upar))])
    I = np.concatenate([Gm*e, np.zeros(len(upar))])  # uA = mS*mV
    if i_nA is not None:
        I[:N] += np.asarray(i_nA)*1e-3
    vb = np.zeros(M); vb[:N] = v
    # bwd Euler: C (v' - v)/dt = -G v' - Gm v' + I ; at bp: 0 = -G v'
    A = np.diag(Cfull/dt) + G + np.diag(Gmf)
    rhs = Cfull/dt*vb + I
    sol = np.linalg.solve(A, rhs)
    return sol[:N]

def jaxley_step(cell, dt, voltage_solver, solver='bwd_euler'):
    cell.delete_recordings()
    cell.record('v', verbose=False)
    out = jx.integrate(cell, t_max=dt*1.0, delta_t=dt, voltage_solver=voltage_solver, solver=solver)
    return np.asarray(out)
