"""C10 - set / data_set / make_trainable are equivalent and touch only what was selected."""
from __future__ import annotations

import numpy as np
from hypothesis import strategies as st

from vp.gen.morph import fl
from vp import core
from vp.gen import morph as gm
from vp.gen import net as gn

ID = "C10"
RULE = (
    "Hypothesis draws a cell or network with heterogeneous branch sizes, HH on a drawn subset of compartments, 0-5 "
    "synapses of two interleaved types, and 1-4 parameter assignments, each = (view kind: module / cells / branches / "
    "compartments / select(rows) / group / channel view / synapse-type view / edge(i), key: radius, length, "
    "axial_resistivity, capacitance, HH_gNa, v, HH_m, <Syn>_gS/gC, IonotropicSynapse_s, one value per sharing group). "
    "Views are drawn freely, so they often exclude the module's last compartment and share over branches of unequal "
    "size. Oracle: a set model says which rows each value must reach; the arrays returned by get_all_parameters / "
    "get_all_states must equal it for all three routes (set, data_set, make_trainable + params with values different "
    "from init), rows outside stay at the baseline, integrate outputs of the three routes agree, and write_trainables "
    "stores exactly those arrays. Non-trivial: sharing groups of unequal size with the module's last row outside the "
    "selection, or an edge key with two synapse types, or a state key; distinct = hash(structure, assignments)."
)
ASSUMPTIONS = [
    "float64, CPU; arrays are read through get_all_parameters/get_all_states (documented in their docstrings) and integrate",
    "make_trainable sharing semantics as documented in the tutorials: one parameter per cell/branch/compartment of a "
    "cell()/branch()/comp() view, one per row for select(), one shared parameter for module, group and channel views, "
    "one per edge for edge(i) and one shared for a synapse-type view",
    "comparison of arrays is exact for set vs model and 1e-12 relative across routes; integrate outputs 1e-9",
]
TECHNIQUE = "property-based testing (Hypothesis): set-model oracle + three-way differential (set / data_set / make_trainable)"
LEVEL_TEXT = (
    "Generated views, keys and sharing patterns; the parameter and state arrays actually used by the simulation are compared "
    "with a set model and across the three documented routes, including groups of unequal size and edge keys with interleaved "
    "synapse types. Search, not proof."
)
NODE_KEYS = ["radius", "length", "axial_resistivity", "capacitance", "HH_gNa", "HH_gK", "v", "HH_m"]
RANGE = {"radius": (0.5, 10.0), "length": (5.0, 100.0), "axial_resistivity": (100.0, 5000.0), "capacitance": (0.5, 2.0),
         "HH_gNa": (0.05, 0.3), "HH_gK": (0.01, 0.1), "v": (-80.0, -50.0), "HH_m": (0.0, 1.0),
         "IonotropicSynapse_gS": (1e-4, 1e-2), "TestSynapse_gC": (1e-4, 1e-2), "IonotropicSynapse_s": (0.0, 1.0),
         "IonotropicSynapse_k_minus": (0.01, 0.1), "TestSynapse_c": (0.0, 1.0)}
SYN = ["IonotropicSynapse", "TestSynapse"]


def budget(tier):
    return 12 if tier == "quick" else 150


def wall_guard(tier):
    return 1200 if tier == "quick" else 7200


def _groups_for(spec, a):
    """Set model: list of row-lists (sharing groups, in the library's group order) for an assignment."""
    rows = gm.rows(spec["morph"])
    key = a["key"]
    hh = set(spec["hh_rows"])
    if a["on"] == "edges":
        t = key.split("_")[0]
        ids = [i for i in a["targets"] if spec["edges"][i]["type"] == t]
        if a["view"] == "type":
            return [ids] if ids else []
        return [[i] for i in ids]
    own = [r for r in a["targets"] if not key.startswith("HH_") or r in hh]
    if a["view"] in ("module", "group", "channel"):
        return [own] if own else []
    pos = {"cells": 0, "branches": 1, "comps": 2, "select": 2}[a["view"]]
    out = {}
    for r in own:
        out.setdefault(rows[r][pos], []).append(r)
    return [out[k] for k in sorted(out)]


@st.composite
def _assignment(draw, spec):
    rows = gm.rows(spec["morph"])
    N = len(rows)
    kind = spec["morph"]["kind"]
    edges = spec["edges"]
    on_edges = bool(edges) and draw(st.booleans())
    if on_edges:
        t = draw(st.sampled_from(sorted({e["type"] for e in edges})))
        keys_t = [k for k in RANGE if k.startswith(t + "_")]
        state_keys = [k for k in keys_t if k in ("IonotropicSynapse_s", "TestSynapse_c")]
        key = draw(st.sampled_from(state_keys if state_keys and draw(st.integers(0, 2)) == 0 else keys_t))
        ids = [i for i, e in enumerate(edges) if e["type"] == t]
        view = draw(st.sampled_from(["type", "edge", "select_edges", "select_edges"]))
        if view == "type":
            targets = ids
        elif view == "select_edges":
            # a view may hold synapses of other types too: they do not own the key and must stay untouched
            others = [i for i in range(len(edges)) if i not in ids]
            targets = sorted(draw(st.sets(st.sampled_from(ids), min_size=1)) | (draw(st.sets(st.sampled_from(others), min_size=draw(st.integers(0, 1)))) if others else set()))
        else:
            targets = sorted(draw(st.sets(st.sampled_from(ids), min_size=1)))
        a = {"on": "edges", "view": view, "key": key, "targets": targets, "type": t}
    else:
        key = draw(st.sampled_from(NODE_KEYS if spec["hh_rows"] else NODE_KEYS[:4] + ["v"]))
        views = ["module", "branches", "branches", "comps", "select", "group"]
        if kind == "network":
            views.append("cells")
        if key.startswith("HH_"):
            views.append("channel")
        view = draw(st.sampled_from(views))
        nb = max(r[1] for r in rows) + 1
        ncell = max(r[0] for r in rows) + 1
        if view == "module":
            targets = list(range(N))
        elif view == "channel":
            targets = sorted(spec["hh_rows"])
        elif view == "cells":
            cs = draw(st.sets(st.integers(0, ncell - 1), min_size=1))
            targets = [i for i, r in enumerate(rows) if r[0] in cs]
        elif view == "branches":
            bs = draw(st.sets(st.integers(0, nb - 1), min_size=1))
            targets = [i for i, r in enumerate(rows) if r[1] in bs]
        else:
            targets = sorted(draw(st.sets(st.integers(0, N - 1), min_size=1)))
        a = {"on": "nodes", "view": view, "key": key, "targets": targets}
    groups = _groups_for(spec, a)
    lo, hi = RANGE[key]
    a["init"] = [draw(fl(lo, hi)) for _ in groups]
    a["vals"] = [draw(fl(lo, hi)) for _ in groups]
    a["init_none"] = draw(st.integers(0, 3)) == 0
    return a


@st.composite
def _spec(draw, tier):
    kind = draw(st.sampled_from(["cell", "cell", "network"]))
    morph = draw(gm.morphology(tier, kinds=(kind,), max_branches=4, max_ncomp=3, max_cells=3, ranges=gm.RANGES_DYN))
    N = gm.n_compartments(morph["cells"])
    morph["v"] = [draw(fl(-75.0, -55.0)) for _ in range(N)]
    hh_rows = list(range(N)) if draw(st.booleans()) else sorted(draw(st.sets(st.integers(0, N - 1), max_size=N)))
    edges = draw(gn.edge_list(N, max_edges=5, min_edges=draw(st.sampled_from([0, 0, 3])), types=SYN)) if kind == "network" and N >= 2 else []
    if len(edges) >= 3 and draw(st.booleans()):
        # "sandwich": an edge of another type between two edges of one type, so that the rank of a synapse within its
        # type differs from its offset to the first edge of the type (per-type arrays are indexed by rank)
        for ta in SYN:
            a_ids = [i for i, e in enumerate(edges) if e["type"] == ta]
            b_ids = [i for i, e in enumerate(edges) if e["type"] != ta]
            if len(a_ids) >= 2 and b_ids:
                front = [a_ids[0], b_ids[0], a_ids[1]]
                edges = [edges[i] for i in front] + [e for i, e in enumerate(edges) if i not in front]
                break
    spec = {"morph": morph, "hh_rows": hh_rows, "edges": edges}
    spec["assignments"] = [draw(_assignment(spec)) for _ in range(draw(st.integers(1, 4)))]
    spec["simulate"] = draw(st.integers(0, 2)) == 0
    a0 = spec["assignments"][0]
    if a0["on"] == "nodes" and a0["view"] != "module" and draw(st.integers(0, 3)) == 0:
        # override chain A, B, A': the same key is assigned on a view, then on the whole module, then on the first
        # view again - the last assignment wins on its rows whichever route carries it (set order, order of the
        # data_set chain, order of the trainables), and the run is simulated
        lo, hi = RANGE[a0["key"]]
        aB = {"on": "nodes", "view": "module", "key": a0["key"], "targets": list(range(N)), "init_none": False}
        aB["init"] = [draw(fl(lo, hi)) for _ in _groups_for(spec, aB)]
        aB["vals"] = [draw(fl(lo, hi)) for _ in _groups_for(spec, aB)]
        a2 = dict(a0, vals=[draw(fl(lo, hi)) for _ in a0["vals"]], init=[draw(fl(lo, hi)) for _ in a0["init"]], init_none=False)
        if _groups_for(spec, aB) and _groups_for(spec, a0):
            spec["assignments"] = [a0, aB, a2]
            spec["simulate"] = True
    spec["backend"] = draw(st.sampled_from(gn.BACKENDS))
    return spec


def strategy(tier):
    return _spec(tier)


def size(spec):
    return (len(spec["assignments"]), gm.n_compartments(spec["morph"]["cells"]), len(spec["edges"]), core.spec_size(spec))


# ---------------------------------------------------------------------------------------


def build(spec):
    from jaxley.channels import HH
    from vp.build import build_module

    m = build_module(spec["morph"])
    if spec["hh_rows"]:
        gn.view_of(m, spec["hh_rows"]).insert(HH())
    if spec["edges"]:
        gn.connect_edges(m, spec["edges"])
    return m


def the_view(m, spec, a):
    rows = gm.rows(spec["morph"])
    if a["on"] == "edges":
        if a["view"] == "type":
            return getattr(m, a["type"])
        if a["view"] == "edge":
            ids = [i for i, e in enumerate(spec["edges"]) if e["type"] == a["type"]]
            return getattr(m, a["type"]).edge([ids.index(i) for i in a["targets"]])
        return m.select(edges=[int(i) for i in a["targets"]])
    v = a["view"]
    t = a["targets"]
    if v == "module":
        return m
    if v == "channel":
        return m.HH
    if v == "group":
        name = "grp_c10_" + core.h([a["key"], t])  # one group per assignment
        gn.view_of(m, t).add_to_group(name)
        return getattr(m, name)
    if v == "select":
        return gn.view_of(m, t) if len(m.nodes) > 1 else m
    if v == "cells":
        return m.cell(sorted({rows[i][0] for i in t}))
    if v == "branches":
        bs = sorted({rows[i][1] for i in t})
        return m.scope("global").branch(bs) if spec["morph"]["kind"] != "branch" else m
    if v == "comps":
        return m.scope("global").comp([int(i) for i in t])
    raise ValueError(v)


def group_view(m, spec, a, g, N):
    """View used by the set / data_set routes for one sharing group: the group's rows plus the rows of the
    drawn view that do not own the key (other synapse types, compartments without the channel)."""
    own = {x for grp in _groups_for(spec, a) for x in grp}
    extra = [x for x in a["targets"] if x not in own]
    if a["on"] == "edges":
        return m.select(edges=sorted(set(int(i) for i in g) | set(int(i) for i in extra)))
    rows = sorted(set(g) | set(extra))
    return gn.view_of(m, rows) if N > 1 else m


def arrays(m, params=None, param_state=None, dt=0.025):
    """All parameter and state arrays the simulation uses."""
    from jaxley.utils.cell_utils import params_to_pstate

    m.to_jax()
    pstate = params_to_pstate(params if params is not None else [], m.indices_set_by_trainables if params is not None else [])
    if param_state is not None:
        pstate = pstate + param_state
    P = m.get_all_parameters(pstate, voltage_solver="jaxley.stone")
    S = m.get_all_states(pstate, P, dt)
    out = {k: np.asarray(v, float) for k, v in P.items() if k != "axial_conductances"}
    out.update({k: np.asarray(v, float) for k, v in S.items()})
    return out


def expected_arrays(spec, base, which="vals"):
    """Baseline arrays with every assignment applied through the set model."""
    exp = {k: v.copy() for k, v in base.items()}
    for a in spec["assignments"]:
        groups = _groups_for(spec, a)
        vals = a[which]
        if a["on"] == "edges":
            t = a["type"]
            ids = [i for i, e in enumerate(spec["edges"]) if e["type"] == t]
            for g, val in zip(groups, vals):
                for i in g:
                    exp[a["key"]][ids.index(i)] = val
        else:
            for g, val in zip(groups, vals):
                for r in g:
                    exp[a["key"]][r] = val
    return exp


def compare(out, got, exp, label, spec, exact=True):
    for k in exp:
        if k.startswith("i_"):
            continue
        if k not in got:
            out.violate(f"arrays:{label}", f"{label}: array {k} missing")
            return False
        a, b = got[k], exp[k]
        ok = a.shape == b.shape and (np.array_equal(a, b, equal_nan=True) if exact else np.allclose(a, b, rtol=1e-12, atol=0, equal_nan=True))
        if not ok:
            bad = np.flatnonzero(~np.isclose(a, b, rtol=1e-12, atol=0, equal_nan=True)) if a.shape == b.shape else "shape"
            out.violate(f"arrays:{label}", f"{label}: array {k} differs from the set model at rows {bad if isinstance(bad, str) else bad.tolist()}: "
                        f"got {a[bad].tolist() if not isinstance(bad, str) else a.shape}, expected {b[bad].tolist() if not isinstance(bad, str) else b.shape}; "
                        f"assignments={[(x['view'], x['key'], x['targets']) for x in spec['assignments']]} cells={spec['morph']['cells']}")
            return False
    return True


def judge(spec, tier="quick"):
    import jax.numpy as jnp
    import jaxley as jx

    out = core.Outcome()
    rows = gm.rows(spec["morph"])
    N = len(rows)
    m0, err = core.call(build, spec)
    if err:
        out.internal_crashes.append(f"build:{err.etype}@{err.frame}")
        out.notes.append(err.short()[:100])
        return out
    base = arrays(m0)
    exp = expected_arrays(spec, base, "vals")
    # classes
    nontriv = False
    for a in spec["assignments"]:
        groups = _groups_for(spec, a)
        out.classes.append(f"view:{a['view']}")
        sizes = {len(g) for g in groups}
        last_out = a["on"] == "nodes" and (N - 1) not in a["targets"]
        if len(sizes) > 1:
            out.classes.append("unequal groups")
        if len(sizes) > 1 and last_out:
            out.classes.append("unequal groups, last row outside")
            nontriv = True
        if a["on"] == "edges" and len({e["type"] for e in spec["edges"]}) > 1:
            nontriv = True
            out.classes.append("edge key, two types")
        if a["key"] in ("v", "HH_m", "IonotropicSynapse_s", "TestSynapse_c"):
            nontriv = True
            out.classes.append("state key")
    if nontriv:
        out.nontrivial_keys.append(core.h([spec["morph"]["cells"], spec["hh_rows"], [(e["pre"], e["post"], e["type"]) for e in spec["edges"]],
                                           [(a["view"], a["key"], a["targets"]) for a in spec["assignments"]]]))
    empty = [a for a in spec["assignments"] if not _groups_for(spec, a)]

    # ---- route A: set -------------------------------------------------------------------
    def route_set():
        m = build(spec)
        for a in spec["assignments"]:
            groups = _groups_for(spec, a)
            if len(groups) == 1 and a["on"] == "nodes":
                # one shared value: set it through the drawn view itself, which may contain rows that do
                # not own the key (e.g. compartments without the channel) - they must stay untouched
                the_view(m, spec, a).set(a["key"], float(a["vals"][0]))
                continue
            for g, val in zip(groups, a["vals"]):
                group_view(m, spec, a, g, N).set(a["key"], float(val))
        return m

    mA, err = core.call(route_set)
    if err:
        out.violate("raises:set", f"set route raised {err.short()}", etype=err.etype, frame=err.frame)
        return out
    gotA = arrays(mA)
    out.evals += 1
    if not compare(out, gotA, exp, "set", spec):
        return out

    # ---- route B: data_set --------------------------------------------------------------
    def route_data_set():
        m = build(spec)
        ps = None
        for a in spec["assignments"]:
            for g, val in zip(_groups_for(spec, a), a["vals"]):
                ps = group_view(m, spec, a, g, N).data_set(a["key"], float(val), ps)
        return m, ps

    res, err = core.call(route_data_set)
    if err:
        out.violate("raises:data_set", f"data_set route raised {err.short()}", etype=err.etype, frame=err.frame)
        return out
    mB, psB = res
    gotB, err = core.call(arrays, mB, None, psB)
    if err:
        out.violate("raises:data_set", f"get_all_parameters with data_set state raised {err.short()}", etype=err.etype, frame=err.frame)
        return out
    out.evals += 1
    if not compare(out, gotB, exp, "data_set", spec, exact=False):
        return out

    # ---- route C: make_trainable + params ------------------------------------------------
    def route_trainable():
        m = build(spec)
        for a in spec["assignments"]:
            v = the_view(m, spec, a)
            init = None if a["init_none"] else [float(x) for x in a["init"]]
            v.make_trainable(a["key"], init_val=init if init is None or len(init) > 1 else init, verbose=False)
        return m

    mC, err = core.call(route_trainable)
    if err:
        if empty and err.etype == "AssertionError":
            out.refusals.append("make_trainable on a view without settable rows: AssertionError")
            return out
        out.violate("raises:make_trainable", f"make_trainable route raised {err.short()}; assignments={[(x['view'], x['key'], x['targets']) for x in spec['assignments']]}",
                    etype=err.etype, frame=err.frame)
        return out
    tp = mC.get_parameters()
    want_counts = [len(_groups_for(spec, a)) for a in spec["assignments"]]
    got_counts = [len(next(iter(p.values()))) for p in tp]
    out.evals += 1
    if got_counts != want_counts or [next(iter(p)) for p in tp] != [a["key"] for a in spec["assignments"]]:
        out.violate("trainable-structure", f"get_parameters() has {[(next(iter(p)), c) for p, c in zip(tp, got_counts)]}, expected "
                    f"{[(a['key'], c) for a, c in zip(spec['assignments'], want_counts)]} (one value per sharing group)")
        return out
    # initial values
    exp_init = expected_arrays(dict(spec, assignments=[a for a in spec["assignments"] if not a["init_none"]]), base, "init")
    if not any(a["init_none"] for a in spec["assignments"]):
        gotC0, err = core.call(arrays, mC, tp)
        if err:
            out.violate("raises:make_trainable", f"get_all_parameters with trainables raised {err.short()}", etype=err.etype, frame=err.frame)
            return out
        out.evals += 1
        if not compare(out, gotC0, exp_init, "make_trainable(init)", spec, exact=False):
            return out
    params = [{a["key"]: jnp.asarray(np.asarray(a["vals"], float))} for a in spec["assignments"]]
    gotC, err = core.call(arrays, mC, params)
    if err:
        out.violate("raises:make_trainable", f"get_all_parameters with trainables raised {err.short()}", etype=err.etype, frame=err.frame)
        return out
    out.evals += 1
    if not compare(out, gotC, exp, "make_trainable(params)", spec, exact=False):
        return out
    # the module's tables are untouched by make_trainable / get_all_parameters
    gotC_base = arrays(build(spec))
    # ---- write_trainables stores exactly the simulated values --------------------------
    # between the last conversion to jax arrays (integrate / get_all_parameters) and write_trainables the user
    # may change other rows with set(): write_trainables must store what the tables say plus the trainables
    exp_w = {k: v.copy() for k, v in exp.items()}
    a0 = spec["assignments"][0]
    if a0["on"] == "nodes":
        covered = {x for a in spec["assignments"] if a["key"] == a0["key"] for grp in _groups_for(spec, a) for x in grp}
        free = [r for r in range(N) if r not in covered and (not a0["key"].startswith("HH_") or r in set(spec["hh_rows"]))]
        if free:
            lo, hi = RANGE[a0["key"]]
            newval = 0.5 * (lo + hi) * 1.01
            (gn.view_of(mC, free[:1]) if N > 1 else mC).set(a0["key"], float(newval))
            exp_w[a0["key"]][free[0]] = newval
            out.classes.append("set() between conversion and write_trainables")
    _, err = core.call(mC.write_trainables, params)
    if err:
        out.violate("raises:write_trainables", f"write_trainables raised {err.short()}", etype=err.etype, frame=err.frame)
        return out
    mC.delete_trainables()
    gotW = arrays(mC)
    out.evals += 1
    if not compare(out, gotW, exp_w, "write_trainables", spec, exact=False):
        return out
    # ---- simulate: three routes agree -----------------------------------------------------
    if spec["simulate"]:
        def sim(m, **kw):
            (gn.view_of(m, [0]) if N > 1 else m).stimulate(jnp.asarray([0.2] * 6), verbose=False)
            m.record("v", verbose=False)
            # membrane and synaptic currents and synaptic states too: column 0 is the current at the *simulated*
            # initial state, whichever route supplied it
            if spec["hh_rows"]:
                (gn.view_of(m, spec["hh_rows"]) if N > 1 else m).record("i_HH", verbose=False)
            for t in sorted({e["type"] for e in spec["edges"]}):
                ids = [i for i, e in enumerate(spec["edges"]) if e["type"] == t]
                m.select(edges=ids).record(f"i_{t}", verbose=False)
                if t == "IonotropicSynapse":
                    m.select(edges=ids).record("IonotropicSynapse_s", verbose=False)
            return np.asarray(jx.integrate(m, delta_t=0.025, voltage_solver="jax.sparse", **kw), float)

        mC2 = route_trainable()
        rA, e1 = core.call(sim, mA)
        rB, e2 = core.call(sim, mB, param_state=psB)
        rC, e3 = core.call(sim, mC2, params=params)
        if e1 or e2 or e3:
            e = e1 or e2 or e3
            out.violate("raises:integrate", f"integrate raised {e.short()}", etype=e.etype, frame=e.frame)
            return out
        out.evals += 1
        out.classes.append("simulated")
        # voltages: 1e-9 of the voltage scale; current and state rows: 1e-8 of the row's own maximum
        sc = np.full((rA.shape[0], 1), max(1.0, float(np.max(np.abs(rA[:N])))))
        if rA.shape[0] > N:
            sc[N:, 0] = 10.0 * np.max(np.abs(rA[N:]), axis=1) + 1e-3
        if not (rA.shape == rB.shape == rC.shape and np.all(np.abs(rA - rB) <= 1e-9 * sc) and np.all(np.abs(rA - rC) <= 1e-9 * sc)):
            out.violate("simulate-routes", f"integrate differs between routes: set vs data_set {np.max(np.abs(rA - rB)):.3e}, set vs make_trainable {np.max(np.abs(rA - rC)):.3e}; "
                        f"assignments={[(x['view'], x['key'], x['targets']) for x in spec['assignments']]}")
    return out


PREDICATES = {}
