"""C14 - init_states puts every mechanism at its voltage-dependent steady state."""
from __future__ import annotations

import numpy as np
from hypothesis import strategies as st

from vp.gen.morph import fl

from vp import core
from vp.gen import morph as gm
from vp.ref import mech as R2
from vp.checks.c03 import NICE_VT, _ulps

ID = "C14"
RULE = (
    "Hypothesis draws a module (compartment/branch/cell/network, <=12 compartments), 1-4 channels out of "
    "HH/Na/K/Km/CaL/CaT/Leak (some renamed, possibly two instances of one class) inserted on drawn compartment "
    "subsets, per-compartment v in [-120,60] (floats + exact singular voltages), per-compartment vt, taumax, vx and "
    "arbitrary pre-existing gate values; then, on the same module object, new vt/taumax/vx (and sometimes v) are set - sometimes after an "
    "integrate call - and init_states() is called a second time. After each init_states(): (a) each written gate equals the published steady state "
    "(R2) for that compartment's own v and parameters, (b) a further update_states at the same v with dt in "
    "{1e-3,0.025,1,1e3} moves no gate by more than 1e-10, (c) every other cell of .nodes is bit-identical. One "
    "evaluation per (channel, gate, compartment). Non-trivial: >=2 channels, a partial insertion and non-uniform v; "
    "distinct = hash(structure, insertion pattern, v)."
)
ASSUMPTIONS = [
    "float64, CPU",
    "steady states compared with vp/ref/mech.py (hand-transcribed published formulas) at 1e-7 absolute",
    "fixed-point clause uses the channel's own update_states with the values displayed in .nodes",
    "parameters are set with view.set() on exactly the rows that own the column",
]
TECHNIQUE = "property-based testing (Hypothesis): reference steady states + fixed-point metamorphic check + frame condition on .nodes"
LEVEL_TEXT = (
    "Generated partial, overlapping channel insertions with per-compartment voltages and parameters; init_states is judged "
    "against published steady states, against its own update rule (fixed point for four time steps) and by a frame condition "
    "on all untouched table cells."
)
MECHS = ["HH", "Na", "K", "Km", "CaL", "CaT", "Leak"]


def budget(tier):
    return 40 if tier == "quick" else 800


@st.composite
def _spec(draw, tier):
    morph = draw(gm.morphology(tier, kinds=("compartment", "branch", "cell", "cell", "cell", "network"), max_branches=4, max_ncomp=3, max_cells=2, with_v=False))
    N = gm.n_compartments(morph["cells"])
    nch = draw(st.integers(1, 4))
    chans, used = [], set()
    for _ in range(nch):
        mech = draw(st.sampled_from(MECHS))
        name = draw(st.sampled_from([None, None, mech + "2", "X" + mech]))
        if (name or mech) in used:
            continue
        used.add(name or mech)
        rows = sorted(draw(st.sets(st.integers(0, N - 1), min_size=1, max_size=N)))
        if draw(st.integers(0, 3)) == 0:
            rows = list(range(N))
        chans.append({"mech": mech, "name": name, "rows": rows})
    if not chans:
        chans = [{"mech": "HH", "name": None, "rows": list(range(N))}]
    vt = [draw(st.one_of(st.sampled_from(NICE_VT), fl(-75.0, -45.0))) for _ in range(N)]
    sing = [-40.0, -55.0, -27.0]
    v = []
    for i in range(N):
        kind = draw(st.sampled_from(["float", "float", "sing", "sing_vt"]))
        if kind == "float":
            v.append(draw(fl(-120.0, 60.0)))
        elif kind == "sing":
            v.append(_ulps(draw(st.sampled_from(sing)), draw(st.integers(-2, 2))))
        else:
            v.append(vt[i] + draw(st.sampled_from([13.0, 15.0, 40.0])))
    if draw(st.integers(0, 4)) == 0:
        v = [v[0]] * N
    spec = {
        "morph": morph, "channels": chans, "v": v, "vt": vt,
        "taumax": [draw(fl(200.0, 8000.0)) for _ in range(N)],
        "vx": [draw(fl(-10.0, 10.0)) for _ in range(N)],
        "gate0": [draw(fl(0.0, 1.0)) for _ in range(N)],
    }
    # second round on the SAME module object: change parameters / voltages, call init_states() again
    spec["round2"] = {
        "vt": [draw(st.one_of(st.sampled_from(NICE_VT), fl(-75.0, -45.0))) for _ in range(N)],
        "taumax": [draw(fl(200.0, 8000.0)) for _ in range(N)],
        "vx": [draw(fl(-10.0, 10.0)) for _ in range(N)],
        "v": [draw(fl(-120.0, 60.0)) for _ in range(N)] if draw(st.booleans()) else None,
        "integrate_between": draw(st.booleans()),
    }
    return spec


def strategy(tier):
    return _spec(tier)


def size(spec):
    return (gm.n_compartments(spec["morph"]["cells"]), len(spec["channels"]), core.spec_size(spec))


def _set_on_owner_rows(m, key, arr):
    nodes = m.nodes
    if key not in nodes.columns:
        return
    rows = nodes.index[~nodes[key].isna()].to_numpy()
    if len(rows) == 0:
        return
    view = m.select(nodes=rows) if len(nodes) > 1 else m
    view.set(key, np.asarray(arr, float)[rows] if len(rows) > 1 else float(np.asarray(arr)[rows[0]]))


def build(spec):
    from vp.build import build_module
    from vp.checks.c03 import _make

    m = build_module(spec["morph"])
    N = len(m.nodes)
    objs = []
    for c in spec["channels"]:
        ch = _make(c["mech"], c["name"])
        view = m.select(nodes=[int(r) for r in c["rows"]]) if N > 1 else m
        view.insert(ch)
        objs.append(ch)
    _set_on_owner_rows(m, "v", spec["v"])
    _set_on_owner_rows(m, "vt", spec["vt"])
    for c in spec["channels"]:
        pre = c["name"] or c["mech"]
        if c["mech"] == "Km":
            _set_on_owner_rows(m, f"{pre}_taumax", spec["taumax"])
        if c["mech"] == "CaT":
            _set_on_owner_rows(m, f"{pre}_vx", spec["vx"])
        for g in R2.CHANNELS[c["mech"]]["states"]:
            _set_on_owner_rows(m, f"{pre}_{g}", spec["gate0"])
    return m, objs


def judge(spec, tier="quick"):
    import jax.numpy as jnp

    out = core.Outcome()
    res, err = core.call(build, spec)
    if err:
        out.internal_crashes.append(f"build:{err.etype}@{err.frame}")
        out.notes.append("build failed: " + err.short())
        return out
    m, objs = res
    _round(spec, m, objs, out, 1)
    r2 = spec.get("round2")
    if r2 and not out.violations:
        if r2["integrate_between"]:
            import jaxley as jx
            m.record("v", verbose=False)
            core.call(lambda: jx.integrate(m, t_max=0.05))
            m.delete_recordings()
        spec2 = dict(spec, vt=r2["vt"], taumax=r2["taumax"], vx=r2["vx"], v=r2["v"] or spec["v"])
        _set_on_owner_rows(m, "v", spec2["v"])
        _set_on_owner_rows(m, "vt", spec2["vt"])
        for c in spec["channels"]:
            pre = c["name"] or c["mech"]
            if c["mech"] == "Km":
                _set_on_owner_rows(m, f"{pre}_taumax", spec2["taumax"])
            if c["mech"] == "CaT":
                _set_on_owner_rows(m, f"{pre}_vx", spec2["vx"])
        out.classes.append("second init_states after set" + (" and integrate" if r2["integrate_between"] else ""))
        _round(spec2, m, objs, out, 2)
    partial = any(len(c["rows"]) < len(m.nodes) for c in spec["channels"])
    if len(spec["channels"]) >= 2 and partial and len(set(spec["v"])) > 1:
        out.nontrivial_keys.append(core.h([spec["morph"]["cells"], [(c["mech"], c["name"], c["rows"]) for c in spec["channels"]], spec["v"]]))
    out.classes.append(f"{len(spec['channels'])} channels")
    if partial:
        out.classes.append("partial insertion")
    for c in spec["channels"]:
        out.classes.append(c["mech"] + (":renamed" if c["name"] else ""))
    return out


def _round(spec, m, objs, out, rnd):
    import jax.numpy as jnp

    before = m.nodes.copy(deep=True)
    _, err = core.call(m.init_states)
    if err:
        out.violate("raises", f"init_states() raised {err.short()}", etype=err.etype, frame=err.frame)
        return out
    after = m.nodes
    N = len(after)
    v = np.asarray(spec["v"], float)
    written = set()
    for c, ch in zip(spec["channels"], objs):
        mech, pre = c["mech"], c["name"] or c["mech"]
        table = R2.CHANNELS[mech]
        rows = np.asarray(c["rows"], int)
        P = {"vt": np.asarray(spec["vt"])[rows], "taumax": np.asarray(spec["taumax"])[rows], "vx": np.asarray(spec["vx"])[rows]}
        for g, gfun in table["gates"].items():
            col = f"{pre}_{g}"
            kind, a, b = gfun(v[rows], P)
            x_inf, _ = R2.steady_tau(kind, a, b)
            got = after.loc[rows, col].to_numpy(float)
            out.evals += len(rows)
            for r in rows:
                written.add((int(r), col))
            bad = ~(np.abs(got - x_inf) <= 1e-7)
            if bad.any():
                i = int(np.argmax(bad))
                out.violate(f"steady:{mech}.{g}", f"round {rnd}: {mech}({pre}).{g} at compartment {rows[i]} (v={v[rows][i]!r}): init_states wrote {got[i]!r}, "
                            f"steady state {x_inf[i]!r}")
        # fixed point of its own update rule
        if table["gates"] and not out.violations:
            params = {}
            for k in table["params"]:
                key = k if k in table["globals"] else f"{pre}_{k}"
                params[key] = jnp.asarray(after.loc[rows, key].to_numpy(float))
            for k in ("radius", "length", "axial_resistivity", "capacitance"):
                params[k] = jnp.asarray(after.loc[rows, k].to_numpy(float))
            states = {f"{pre}_{g}": jnp.asarray(after.loc[rows, f"{pre}_{g}"].to_numpy(float)) for g in table["gates"]}
            for dt in (1e-3, 0.025, 1.0, 1e3):
                res, err = core.call(ch.update_states, states, dt, jnp.asarray(v[rows]), params)
                if err:
                    out.violate("raises", f"{mech}.update_states raised {err.short()}", etype=err.etype, frame=err.frame)
                    break
                for g in table["gates"]:
                    new = np.asarray(res[f"{pre}_{g}"], float)
                    old = np.asarray(states[f"{pre}_{g}"], float)
                    out.evals += len(rows)
                    bad = ~(np.abs(new - old) <= 1e-10)
                    if bad.any():
                        i = int(np.argmax(bad))
                        out.violate(f"fixed-point:{mech}.{g}", f"round {rnd}: {mech}({pre}).{g} at compartment {rows[i]} (v={v[rows][i]!r}): after init_states "
                                    f"{old[i]!r}, a further update with dt={dt} gives {new[i]!r}")
    # frame condition: everything not written is bit-identical
    if list(before.columns) != list(after.columns) or len(before) != len(after):
        out.violate("frame", f"init_states changed the table layout: {list(before.columns)} -> {list(after.columns)}")
    else:
        for col in before.columns:
            b, a = before[col].to_numpy(), after[col].to_numpy()
            for r in range(N):
                if (r, col) in written:
                    continue
                same = (b[r] == a[r]) or (isinstance(b[r], float) and isinstance(a[r], float) and np.isnan(b[r]) and np.isnan(a[r]))
                try:
                    same = same or (np.isnan(b[r]) and np.isnan(a[r]))
                except TypeError:
                    pass
                if not same:
                    out.violate("frame", f"init_states changed .nodes[{r}, {col!r}] from {b[r]!r} to {a[r]!r}, which no inserted channel owns")
                    break
    return out


PREDICATES = {}
