import sys; sys.path.insert(0,'/tmp/scratch/exp')
import warnings; warnings.filterwarnings('ignore')
import numpy as np, tempfile, os, collections
from jax import config; config.update('jax_enable_x64', True)
import jaxley as jx
from jaxley.io.swc import swc_to_jaxley
rng = np.random.default_rng(1)
def gen():
    nsoma = rng.integers(1,4)
    pts=[(1,1,0.,0.,0.,float(rng.uniform(2,8)),-1)]
    for i in range(1,nsoma): pts.append((i+1,1,float(i*3),0.,0.,float(rng.uniform(2,8)),i))
    nid=[len(pts)]
    def grow(parent_id, ptype, pos, depth):
        k = rng.integers(1,4); cur = parent_id; p=np.array(pos,float)
        for _ in range(k):
            nid[0]+=1; p = p + rng.normal(0,5,3)
            if rng.random()<0.15: ptype = int(rng.integers(2,5))
            pts.append((nid[0], ptype, *p.tolist(), float(rng.uniform(0.2,2)), cur)); cur = nid[0]
        if depth<2 and rng.random()<0.6:
            for _ in range(rng.integers(2,4)):
                t = ptype if rng.random()<0.8 else int(rng.integers(2,5))
                grow(cur, t, p, depth+1)
    for _ in range(rng.integers(1,4)):
        att = int(rng.integers(1,nsoma+1))
        grow(att, int(rng.integers(2,5)), pts[att-1][2:5], 0)
    return pts
def model(pts):
    ids=[p[0] for p in pts]; typ={p[0]:int(p[1]) for p in pts}; xyz={p[0]:np.array(p[2:5]) for p in pts}; rad={p[0]:p[5] for p in pts}; par={p[0]:p[6] for p in pts}
    ch=collections.defaultdict(list)
    for p in pts:
        if p[6]!=-1: ch[p[6]].append(p[0])
    sps = typ[1]==1 and typ[2]!=1
    def is_break(p):   # section ends at p
        c=ch[p]
        return len(c)!=1 or typ[c[0]]!=typ[p]
    sections=[]  # (points list, type)
    def follow(p0, first):
        lst=[p0, first]; cur=first
        while not is_break(cur): cur=ch[cur][0]; lst.append(cur)
        sections.append((lst, typ[first]))
        for c in ch[cur]: follow(cur, c)
    if sps or is_break(1):
        if sps: sections.append(([1], 1))
        # root point is itself a break: every child starts a section at 1
        if not sps and False: pass
        for c in ch[1]: follow(1, c)
    else:
        # chain from 1
        lst=[1]; cur=1
        while not is_break(cur): cur=ch[cur][0]; lst.append(cur)
        sections.append((lst, 1))
        for c in ch[cur]: follow(cur, c)
    out=[]
    for lst,t in sections:
        if len(lst)==1: L=2*rad[lst[0]]
        else:
            segs=[np.linalg.norm(xyz[a]-xyz[b]) for a,b in zip(lst[:-1],lst[1:])]
            if sps and typ[lst[0]]==1 and typ[lst[1]]!=1: segs[0]=0.0
            L=sum(segs)
        if L==0: L=1.0
        out.append((tuple(lst), t, L))
    # parents
    last={s[0][-1]:i for i,s in enumerate(out)}
    parents=[]
    for i,(lst,t,L) in enumerate(out):
        p0=lst[0]
        if len(lst)==1 or p0 not in last or last[p0]==i: parents.append(-1)
        else: parents.append(last[p0])
    return out, parents
bad=collections.Counter(); ex={}
for it in range(400):
    pts=gen()
    f=tempfile.NamedTemporaryFile('w',suffix='.swc',delete=False)
    for r in pts: f.write(' '.join(str(x) for x in r)+'\n')
    f.close()
    parents, pl, rf, types, coords = swc_to_jaxley(f.name); os.unlink(f.name)
    secs, mpar = model(pts)
    nroots = sum(1 for p in mpar if p==-1)
    exp_len = sorted(round(s[2],6) for s in secs) + ([0.1] if nroots>1 else [])
    got_len = sorted(round(float(x),6) for x in pl)
    ok_len = sorted(exp_len)==got_len
    # parent structure: multiset of (child len, parent len)
    def pairs(lens, pars): return sorted((round(lens[i],6), round(lens[p],6) if p>=0 else -1) for i,p in enumerate(pars))
    ml=[s[2] for s in secs]; mp=list(mpar)
    if nroots>1:
        ml=[0.1]+ml; mp=[-1]+[ (p+1 if p>=0 else 0) for p in mp]
    ok_par = pairs(ml,mp)==pairs([float(x) for x in pl],[int(p) for p in parents])
    # types multiset
    mt = sorted(([5] if nroots>1 else [])+[s[1] for s in secs]); gt=sorted(int(t) for t in types)
    ok_typ = mt==gt
    key=(ok_len, ok_par, ok_typ); bad[key]+=1
    if key!=(True,True,True) and (key not in ex or len(pts)<len(ex[key][0])): ex[key]=(pts, secs, mpar, parents, pl, types)
print(bad)
for k,(pts,secs,mpar,parents,pl,types) in ex.items():
    print('MISMATCH len/par/typ ok=',k)
    for r in pts: print('  ', r[0], r[1], [round(x,1) for x in r[2:5]], round(r[5],2), r[6])
    print('  model', [(s[0], s[1], round(s[2],3)) for s in secs], mpar)
    print('  jaxley parents', [int(p) for p in parents], 'len', [round(float(x),3) for x in pl], 'types', [int(t) for t in types])
