#!/bin/sh
# Offline set-up after a fresh restore: directories + make sure hypothesis is importable.
set -e
cd "$(dirname "$0")"
mkdir -p evidence replays .cache .deps
if ! /venv/bin/python -c "import hypothesis" 2>/dev/null; then
  /venv/bin/pip install --no-index --find-links /opt/veriftools/wheels --target .deps hypothesis
fi
# atheris (coverage-guided fuzzing, second engine of C16); optional: the check runs without it
if ! PYTHONPATH=.deps /venv/bin/python -c "import atheris" 2>/dev/null; then
  /venv/bin/pip install -q --no-index --find-links /opt/veriftools/wheels --target .deps atheris || echo "atheris not installable: C16 runs without its second engine"
fi
PYTHONPATH=.deps /venv/bin/python -c "import hypothesis, numpy, scipy, jax; print('setup ok: hypothesis', hypothesis.__version__)"
