"""Prompt text for a "file-targeted, any property" seeding agent (rounds 4 and 5).

usage: python tools/mkprompt_region.py <round> <Rnn> "<region description>" > /tmp/prompt<round>_<Rnn>.txt
The agent gets the statements of all twenty properties (from /tmp/props_text.json, an extract of
properties.jsonl with title/statement/quantifier only), one source region, and its own worktree.
"""
import json, sys

rnd, rid, region = sys.argv[1], sys.argv[2], sys.argv[3]
props = json.load(open("/tmp/props_text.json"))
wt = f"/tmp/seed{rnd}_{rid}"
plist = "\n".join(f"  {k}: {v['title']}\n      {v['statement']}\n      (quantified over: {v['quantifier']})" for k, v in props.items())
print(f"""You are helping evaluate a test suite for the Python library jaxley (a JAX-based differentiable simulator of multicompartment neuron models). You have your OWN scratch git worktree of the repository at {wt} (work only there; never touch /repo or /verif, and do not read anything under /verif).

Here are twenty semantic properties that the library is supposed to satisfy:

{plist}

YOUR TASK: make ONE small, realistic change (the kind of slip a refactoring or an "optimisation" could plausibly introduce) in THIS region of the source: {region} (paths relative to {wt}). The change must BREAK at least one of the twenty properties - whichever you can break most quietly from inside that region - while the package still imports and the repository's existing stable tests still pass. Prefer a change that needs something specific to manifest - an unusual but legal input, a particular multi-step sequence of API calls, a particular morphology / index pattern / parameter regime, or two cooperating code sites that each look fine alone - NOT one that ordinary use (the README example, a default cell with default parameters) would expose at once. Silent wrong results are better than exceptions. Do not edit tests. Do not add new files to the package other than your edit(s). Keep the change to a few lines.

How to run things:
  * Python: `cd {wt} && PYTHONPATH={wt} /venv/bin/python your_script.py` (this imports jaxley from your worktree). Always enable float64 in scripts: `from jax import config; config.update("jax_enable_x64", True)`.
  * The stable tests that must keep passing are listed (pytest node ids) in /tmp/stable_tests.txt. Run them with
    `cd {wt} && /venv/bin/python -m pytest -q -p no:cacheprovider -n 4 $(cat /tmp/stable_tests.txt | tr '\\n' ' ')` (takes several minutes; you may first run only the test files related to your change). Many OTHER tests in the repository fail or are slow for unrelated reasons - ignore them, only the listed ones matter.
  * No network access. Do not install anything.

DELIVERABLES (all inside {wt}):
  1. Your source change left UNCOMMITTED in the worktree (so that `git -C {wt} diff` shows it). Also save it as {wt}/patch.diff (`git diff -- jaxley > patch.diff`).
  2. {wt}/demo.py - a small self-contained program that exits 0 (prints PASS) on the ORIGINAL code and exits 1 (prints FAIL with an explanation) on your changed code. It should check the property directly (e.g. against an independent calculation, or two routes that must agree), not merely compare with stored numbers. Verify both: run it with your change, then revert with `git apply -R patch.diff`, run it again, then re-apply with `git apply patch.diff`. NEVER use `git stash` (the stash is shared with other worktrees of this repository and other people are working in them). Give demo.py the same two-line licence header comment that the other .py files in the repository root have (tests/test_misc.py checks it).
  3. {wt}/NOTE.md - its FIRST line must be `PROPERTY: Cxx` (the id of the main property your change breaks); then 5-10 lines: what you changed, why it breaks the property, what specific input/sequence is needed for it to manifest, other properties affected, and which commands you ran (including the stable tests result).

Report back a short summary (the diff, the property, what is needed to trigger it, test results). Be efficient: do not explore the whole code base.""")
