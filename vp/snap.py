"""Snapshots of a module's public tables and value-wise comparison (NaN == NaN)."""
from __future__ import annotations

import copy

import numpy as np

BOOKKEEPING_COLS = ("controlled_by_param",)


def snapshot(m):
    """Deep copy of everything a user can see on a module (the base module)."""
    b = m.base
    return {
        "nodes": b.nodes.copy(deep=True),
        "edges": b.edges.copy(deep=True),
        "recordings": b.recordings.copy(deep=True),
        "externals": {k: np.array(v) for k, v in b.externals.items()},
        "external_inds": {k: np.array(v) for k, v in b.external_inds.items()},
        "groups": {k: np.array(v) for k, v in b.groups.items()},
        "trainable_params": [{k: np.array(v) for k, v in d.items()} for d in b.trainable_params],
        "indices_set_by_trainables": [np.array(i) for i in b.indices_set_by_trainables],
        "xyzr": [np.array(x) for x in b.xyzr],
        "channels": [c._name for c in b.channels],
        "synapse_names": list(b.synapse_names),
        "membrane_current_names": list(b.membrane_current_names),
        "comb_parents": np.array(b.comb_parents),
        "ncomp_per_branch": np.array(b.ncomp_per_branch),
    }


def _cell_equal(a, b):
    if a is b:
        return True
    try:
        if a == b:
            return True
    except Exception:
        pass
    try:
        return bool(np.isnan(a) and np.isnan(b))
    except Exception:
        return False


def df_diff(a, b, ignore_cols=BOOKKEEPING_COLS, ignore_prefix=()):
    """Set of (row label, column) cells that differ between two DataFrames (value-wise), plus
    structural notes. Column order is ignored."""
    notes = []
    cols_a = [c for c in a.columns if c not in ignore_cols and not c.startswith(tuple(ignore_prefix) or ("\0",))]
    cols_b = [c for c in b.columns if c not in ignore_cols and not c.startswith(tuple(ignore_prefix) or ("\0",))]
    if set(cols_a) != set(cols_b):
        notes.append(("columns", sorted(set(cols_a) ^ set(cols_b))))
    if list(a.index) != list(b.index):
        notes.append(("index", (list(a.index)[:20], list(b.index)[:20])))
        return set(), notes
    cells = set()
    for c in set(cols_a) & set(cols_b):
        av, bv = a[c].to_numpy(), b[c].to_numpy()
        for r, (x, y) in zip(a.index, zip(av, bv)):
            if not _cell_equal(x, y):
                cells.add((r, c))
    return cells, notes


def arr_equal(a, b):
    a, b = np.asarray(a), np.asarray(b)
    if a.shape != b.shape:
        return False
    if a.dtype.kind in "fc" or b.dtype.kind in "fc":
        return bool(np.array_equal(a, b, equal_nan=True))
    return bool(np.array_equal(a, b))


def dict_arr_diff(a, b):
    keys = set(a) | set(b)
    return sorted(k for k in keys if k not in a or k not in b or not arr_equal(a[k], b[k]))


def diff_snapshots(s0, s1):
    """Dictionary attribute -> description of change (empty dict: identical)."""
    out = {}
    for t in ("nodes", "edges"):
        cells, notes = df_diff(s0[t], s1[t])
        if cells or notes:
            out[t] = {"cells": cells, "notes": notes}
    r0, r1 = s0["recordings"], s1["recordings"]
    if not (len(r0) == len(r1) and (len(r0) == 0 or (list(r0["rec_index"]) == list(r1["rec_index"]) and list(r0["state"]) == list(r1["state"])))):
        out["recordings"] = True
    for k in ("externals", "external_inds", "groups"):
        d = dict_arr_diff(s0[k], s1[k])
        if d:
            out[k] = d
    for k in ("trainable_params",):
        if len(s0[k]) != len(s1[k]) or any(dict_arr_diff(x, y) for x, y in zip(s0[k], s1[k])):
            out[k] = True
    for k in ("indices_set_by_trainables", "xyzr"):
        if len(s0[k]) != len(s1[k]):
            out[k] = "length"
        else:
            ch = [i for i, (x, y) in enumerate(zip(s0[k], s1[k])) if not arr_equal(x, y)]
            if ch:
                out[k] = ch
    for k in ("channels", "synapse_names", "membrane_current_names"):
        if s0[k] != s1[k]:
            out[k] = (s0[k], s1[k])
    for k in ("comb_parents", "ncomp_per_branch"):
        if not arr_equal(s0[k], s1[k]):
            out[k] = True
    return out
