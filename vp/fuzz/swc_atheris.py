"""Coverage-guided fuzzing of the SWC reader (atheris / libFuzzer) with the C16 oracle inside the target.

The bytes libFuzzer mutates are decoded into a structured spec by the C16 Hypothesis strategy
(`test.hypothesis.fuzz_one_input`), so the fuzzer reaches the reader's logic instead of dying in
np.loadtxt; coverage feedback comes from jaxley/utils/cell_utils.py and jaxley/io/swc.py.

usage: python -m vp.fuzz.swc_atheris --runs N --seed S --out DIR
Prints one JSON line: {"execs": n, "judged": n, "violation": <replay path or null>, ...}
"""
import argparse
import json
import os
import sys
import time


def main():
    ap = argparse.ArgumentParser()
    ap.add_argument("--runs", type=int, default=20000)
    ap.add_argument("--seed", type=int, default=1)
    ap.add_argument("--out", default=None)
    ap.add_argument("--max-seconds", type=int, default=600)
    ap.add_argument("--stats-file", default=None, help="libFuzzer exits the process at the end of the campaign: progress is written here")
    a = ap.parse_args()
    from vp import core

    core.setup_env()
    import atheris

    import jaxley.io.swc as swc_mod
    import jaxley.utils.cell_utils as cu

    # instrument the reader's functions for coverage feedback (both where they are defined and where
    # jaxley.io.swc imported them by name)
    for name in ("_split_into_branches_and_sort", "_split_long_branches", "_split_branch_equally", "_split_into_branches",
                 "_build_parents", "_radius_generating_fns", "_radius_generating_fn", "_compute_pathlengths", "build_radiuses_from_xyzr"):
        fn = atheris.instrument_func(getattr(cu, name))
        setattr(cu, name, fn)
        if hasattr(swc_mod, name):
            setattr(swc_mod, name, fn)
    swc_mod.swc_to_jaxley = atheris.instrument_func(swc_mod.swc_to_jaxley)
    from hypothesis import HealthCheck, given, settings

    from vp.checks import c16

    stats = {"execs": 0, "judged": 0, "violation": None, "nontrivial": set(), "t0": time.time()}
    out_dir = a.out or os.path.join(core.VERIF_DIR, "replays", "C16")

    @settings(database=None, deadline=None, suppress_health_check=list(HealthCheck))
    @given(c16.strategy("thorough"))
    def test(spec):
        stats["execs"] += 1
        if a.stats_file and stats["execs"] % 100 == 0:
            _dump(stats, a.stats_file)
        spec = dict(spec, level="swc_to_jaxley")
        if spec.get("file"):
            return
        res = c16.judge(spec, "thorough")
        stats["judged"] += res.evals
        stats["nontrivial"].update(res.nontrivial_keys)
        if res.violations and stats["violation"] is None:
            os.makedirs(out_dir, exist_ok=True)
            path = os.path.join(out_dir, "atheris_" + core.h(spec) + ".json")
            with open(path, "w") as fh:
                json.dump({"property": "C16", "origin": "atheris", "violations": res.violations, "spec": spec}, fh, indent=1, default=core._default)
            stats["violation"] = path
            stats["first"] = res.violations[0]
            if a.stats_file:
                _dump(stats, a.stats_file)
            _finish(stats)
            os._exit(0)
        if time.time() - stats["t0"] > a.max_seconds:
            if a.stats_file:
                _dump(stats, a.stats_file)
            _finish(stats)
            os._exit(0)

    corpus = os.path.join(core.VERIF_DIR, ".cache", "atheris_c16", f"seed{a.seed}_{os.getpid()}")
    os.makedirs(corpus, exist_ok=True)
    # seed corpus: pseudo-random byte strings long enough for Hypothesis to decode a whole spec from
    # them (an empty corpus only yields inputs that are rejected as too short)
    import hashlib

    for i in range(16):
        blob = b"".join(hashlib.sha256(f"{a.seed}/{i}/{j}".encode()).digest() for j in range(16 + 8 * i))
        with open(os.path.join(corpus, f"seed_{i}"), "wb") as fh:
            fh.write(blob)
    argv = [sys.argv[0], f"-runs={a.runs}", f"-seed={a.seed if a.seed else 1}", "-max_len=8192", "-len_control=0", "-verbosity=0", "-print_final_stats=0", corpus]
    import atexit  # noqa: F401  (atexit does not run under libFuzzer: results are printed explicitly)

    atheris.Setup(argv, test.hypothesis.fuzz_one_input)
    try:
        atheris.Fuzz()
    finally:
        _finish(stats)


def _dump(stats, path):
    with open(path + ".tmp", "w") as fh:
        json.dump({"execs": stats["execs"], "judged": stats["judged"], "distinct_nontrivial": len(stats["nontrivial"]),
                   "violation": stats["violation"], "first": stats.get("first"), "wall": round(time.time() - stats["t0"], 1)}, fh)
    os.replace(path + ".tmp", path)


def _finish(stats):
    if stats.get("done"):
        return
    stats["done"] = True
    print("ATHERIS-RESULT " + json.dumps({"execs": stats["execs"], "judged": stats["judged"], "distinct_nontrivial": len(stats["nontrivial"]),
                                          "violation": stats["violation"], "first": stats.get("first"), "wall": round(time.time() - stats["t0"], 1)}), flush=True)


if __name__ == "__main__":
    main()
