import sys; sys.path.insert(0,'/tmp/scratch/exp')
import warnings; warnings.filterwarnings('ignore')
from ref import *
from jaxley.channels import HH, Leak
from jaxley.synapses import IonotropicSynapse, TestSynapse, TanhRateSynapse
from jaxley.connect import connect
rng = np.random.default_rng(3)

def vtrap(x, y):
    x = np.asarray(x, float); r = x / y
    with np.errstate(all='ignore'):
        out = np.where(np.abs(r) < 1e-8, y*(1 - r/2), x/np.expm1(r))
    return out
def hh_rates(v):
    am = 0.1*vtrap(-(v+40),10); bm = 4*np.exp(-(v+65)/18)
    ah = 0.07*np.exp(-(v+65)/20); bh = 1/(np.exp(-(v+35)/10)+1)
    an = 0.01*vtrap(-(v+55),10); bn = 0.125*np.exp(-(v+65)/80)
    return (am,bm),(ah,bh),(an,bn)
def expo(x, dt, a, b):
    tau = 1/(a+b); inf = a*tau
    return inf + (x-inf)*np.exp(-dt/tau)

def ref_sim(net, cells_spec, nsteps, dt):
    nodes = net.nodes; edges = net.edges
    N = len(nodes)
    r = nodes.radius.to_numpy(float); l = nodes.length.to_numpy(float); ra = nodes.axial_resistivity.to_numpy(float); cm = nodes.capacitance.to_numpy(float)
    area = 2*np.pi*r*l*1e-8; C = cm*area
    Rh = ra*(l/2*1e-4)/(np.pi*r**2*1e-8)
    # Laplacian
    bidx = nodes.global_branch_index.to_numpy(); nb = bidx.max()+1
    ncomps = np.bincount(bidx); cums = np.concatenate([[0],np.cumsum(ncomps)])
    parents = np.asarray(net.comb_parents)
    upar = sorted(set(int(p) for p in parents if p>=0)); bp = {p:N+k for k,p in enumerate(upar)}; M = N+len(upar)
    G = np.zeros((M,M))
    def add(a,b,c): G[a,a]+=c; G[b,b]+=c; G[a,b]-=c; G[b,a]-=c
    for b in range(nb):
        for k in range(cums[b], cums[b+1]-1): add(k,k+1,1e3/(Rh[k]+Rh[k+1]))
    for b,p in enumerate(parents):
        if p>=0: add(cums[b], bp[int(p)], 1e3/Rh[cums[b]])
    for p in upar: add(cums[p+1]-1, bp[p], 1e3/Rh[cums[p+1]-1])
    v = nodes.v.to_numpy(float).copy()
    has = nodes['HH'].to_numpy(bool) if 'HH' in nodes else np.zeros(N,bool)
    m = nodes.HH_m.to_numpy(float).copy(); h = nodes.HH_h.to_numpy(float).copy(); n = nodes.HH_n.to_numpy(float).copy()
    gNa, gK, gL = [nodes[k].to_numpy(float) for k in ['HH_gNa','HH_gK','HH_gLeak']]
    eNa, eK, eL = [nodes[k].to_numpy(float) for k in ['HH_eNa','HH_eK','HH_eLeak']]
    # synapses
    pre = edges.pre_global_comp_index.to_numpy(int); post = edges.post_global_comp_index.to_numpy(int); typ = edges.type.to_numpy()
    s = np.where(typ=='IonotropicSynapse', edges.get('IonotropicSynapse_s', np.nan), edges.get('TestSynapse_c', np.nan)).astype(float)
    ext = {k: (np.asarray(net.externals[k]), np.asarray(net.external_inds[k])) for k in net.externals}
    out = [v.copy()]
    for t in range(nsteps):
        I = np.zeros(M)
        if 'i' in ext:
            cur, inds = ext['i']
            np.add.at(I, inds, cur[:,t]*1e-3)   # uA
        (am,bm),(ah,bh),(an,bn) = hh_rates(v)
        m = np.where(has, expo(m,dt,am,bm), m); h = np.where(has, expo(h,dt,ah,bh), h); n = np.where(has, expo(n,dt,an,bn), n)
        gv = np.zeros(M); gE = np.zeros(M)
        for g,e in [(gNa*m**3*h, eNa),(gK*n**4, eK),(gL, eL)]:
            gg = np.where(has, g*area*1e3, 0.0); gv[:N]+=gg; gE[:N]+=gg*np.where(has,e,0.0)
        # synapses
        for j in range(len(edges)):
            if typ[j]=='IonotropicSynapse':
                sinf = 1/(1+np.exp((-35.0 - v[pre[j]])/10)); tau = (1-sinf)/edges.IonotropicSynapse_k_minus[j]
                s[j] = sinf + (s[j]-sinf)*np.exp(-dt/tau)
                g = edges.IonotropicSynapse_gS[j]*s[j]   # uS ; I nA = g*(v-e) ; in uA: *1e-3 ; conductance mS = uS*1e-3
                gv[post[j]] += g*1e-3; gE[post[j]] += g*1e-3*edges.IonotropicSynapse_e_syn[j]
            elif typ[j]=='TestSynapse':
                sinf = 1/(1+np.exp((-35.0 - v[pre[j]])/10)); tau = (1-sinf)/(1/40.)
                s[j] = sinf + (s[j]-sinf)*np.exp(-dt/tau)
                g = edges.TestSynapse_gC[j]*s[j]; gv[post[j]] += g*1e-3
            elif typ[j]=='TanhRateSynapse':
                cur = -edges.TanhRateSynapse_gS[j]*np.tanh((v[pre[j]]-edges.TanhRateSynapse_x_offset[j])*edges.TanhRateSynapse_slope[j])  # nA, outward-positive convention like channels
                I[post[j]] -= cur*1e-3
        Cf = np.concatenate([C, np.zeros(M-N)]); vb = np.concatenate([v, np.zeros(M-N)])
        A = np.diag(Cf/dt)+G+np.diag(gv); b = Cf/dt*vb + gE + I
        v = np.linalg.solve(A,b)[:N]
        out.append(v.copy())
    return np.asarray(out).T

def mk(parents, ncs):
    c = build_cell(parents, ncs, rng); c.delete_channel(Leak()); return c
cells = [mk([-1,0,0],[2,1,2]), mk([-1],[2]), mk([-1,0],[1,3])]
net = jx.Network(cells)
net.insert(HH())
N=len(net.nodes)
net.set('HH_gNa', rng.uniform(0.05,0.2,N)); net.set('HH_m', rng.uniform(0,1,N)); net.set('HH_h', rng.uniform(0,1,N)); net.set('HH_n', rng.uniform(0,1,N))
net.set('v', rng.uniform(-80,-40,N))
connect(net[0,0,0], net[1,0,1], IonotropicSynapse())
connect(net[1,0,0], net[2,1,2], TestSynapse())
connect(net[2,0,0], net[0,2,1], IonotropicSynapse())
connect(net[0,1,0], net[1,0,1], TanhRateSynapse())
connect(net[2,1,0], net[1,0,1], TestSynapse())
net.set('IonotropicSynapse_gS', [3e-3, 1e-3]); net.set('TestSynapse_gC',[2e-3,5e-3]); net.set('TanhRateSynapse_gS', 2e-2); net.set('IonotropicSynapse_e_syn',[0.0,-20.]); 
net.set('IonotropicSynapse_s',[0.3,0.6]); net.set('TestSynapse_c',[0.1,0.9])
cur = jnp.asarray(rng.uniform(-1,2,(2,30)))
net.cell(0).branch(0).comp([0,1]).stimulate(cur, verbose=False)
net.cell(2).branch(1).comp(1).stimulate(jnp.asarray(rng.uniform(0,1,30)), verbose=False)
net.record('v', verbose=False)
for vs in ['jax.sparse','jaxley.stone']:
    out = np.asarray(jx.integrate(net, delta_t=0.05, voltage_solver=vs))
    ref = ref_sim(net, None, 30, 0.05)
    print(vs, out.shape, ref.shape, 'maxerr', np.abs(out-ref).max(), 'range', out.min(), out.max())
