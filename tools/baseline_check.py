"""Run the repository's test-suite (xdist) and compare with /root/.vp/BASELINE.json stable_pass.
Usage: python tools/baseline_check.py [-n 8]   -> prints missing stable tests; exit 0 if none."""
import json, subprocess, sys, tempfile, os, xml.etree.ElementTree as ET
n = sys.argv[sys.argv.index("-n") + 1] if "-n" in sys.argv else "8"
base = json.load(open("/root/.vp/BASELINE.json"))
out = tempfile.mktemp(suffix=".xml", dir="/dev/shm")
cmd = ["/venv/bin/python", "-m", "pytest", "-q", "-p", "no:cacheprovider", "--timeout=900",
       "--continue-on-collection-errors", "-n", n, f"--junitxml={out}"]
env = dict(os.environ); env.pop("JAXLEY_VERIF", None)
subprocess.run(cmd, cwd="/repo", env=env, stdout=subprocess.DEVNULL, stderr=subprocess.DEVNULL)
passed = set()
failed = set()
for tc in ET.parse(out).getroot().iter("testcase"):
    name = f"{tc.get('classname')}::{tc.get('name')}"
    bad = any(ch.tag in ("failure", "error", "skipped") for ch in tc)
    (failed if bad else passed).add(name)
os.unlink(out)
missing = [t for t in base["stable_pass"] if t not in passed]
print(f"passed={len(passed)} failed={len(failed)} stable_missing={len(missing)}")
for m in missing: print("  MISSING", m)
sys.exit(1 if missing else 0)
