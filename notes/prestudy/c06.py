import sys; sys.path.insert(0,'/tmp/scratch/exp')
import warnings; warnings.filterwarnings('ignore')
from ref import *
import copy
from jaxley.channels import HH
rng = np.random.default_rng(5)
cell = build_cell([-1,0,0],[2,3,2], rng); cell.insert(HH())
stim = jnp.asarray(rng.uniform(0,1,(1,12)))
cell.branch(0).comp(0).stimulate(stim, verbose=False)
cell.delete_recordings(); cell.record('v', verbose=False); cell.record('HH_m', verbose=False)
cell.branch(1).make_trainable('radius', verbose=False)
snap = (cell.nodes.copy(), cell.edges.copy(), {k:np.asarray(v).copy() for k,v in cell.externals.items()}, {k:np.asarray(v).copy() for k,v in cell.external_inds.items()}, cell.recordings.copy())
p = cell.get_parameters()
a = jx.integrate(cell, params=p, voltage_solver='jax.sparse'); b = jx.integrate(cell, params=p, voltage_solver='jax.sparse')
print('repeat identical', np.array_equal(a,b), a.shape)
print('nodes same', cell.nodes.equals(snap[0]), 'ext same', all(np.array_equal(cell.externals[k], snap[2][k]) for k in snap[2]), 'recs same', cell.recordings.equals(snap[4]))
# split
full = a
cell2 = copy.deepcopy(cell); cell2.delete_stimuli()
r1, st = jx.integrate(cell, params=p, voltage_solver='jax.sparse', return_states=True, t_max=None) # full for baseline
# first 5 steps via data_stimulate on stimulus-free copy
ds = cell2.branch(0).comp(0).data_stimulate(stim[0,:5], None)
r1, st = jx.integrate(cell2, params=p, data_stimuli=ds, voltage_solver='jax.sparse', return_states=True)
ds2 = cell2.branch(0).comp(0).data_stimulate(stim[0,5:], None)
r2 = jx.integrate(cell2, params=p, data_stimuli=ds2, voltage_solver='jax.sparse', all_states=st)
cat = np.concatenate([r1, r2[:,1:]],axis=1)
print('split err', np.abs(cat-full).max(), 'state==lastcol', np.abs(np.asarray(st['v'])-r1[:7,-1]).max())
# checkpoint
for ck in [[12],[3,4],[2,2,3],[4,4],[5,5]]:
    c = jx.integrate(cell, params=p, voltage_solver='jax.sparse', checkpoint_lengths=ck)
    print(ck, c.shape, np.abs(c-full).max())
