import sys; sys.path.insert(0,'/tmp/scratch/exp')
import warnings; warnings.filterwarnings('ignore')
import numpy as np
from jax import config; config.update('jax_enable_x64', True)
import jax.numpy as jnp
from jaxley.channels import HH, Na, K, Km, CaL, CaT, Leak
from jaxley.synapses import IonotropicSynapse, TestSynapse, TanhRateSynapse
def xe(x):  # x/(exp(x)-1)
    x=np.asarray(x,float)
    with np.errstate(all='ignore'):
        return np.where(np.abs(x)<1e-8, 1-x/2, x/np.expm1(x))
exp=np.exp
v=np.linspace(-150,100,5001)
def cmp(name, got, ref):
    got=np.asarray(got); err=np.max(np.abs(got-ref)/np.maximum(np.abs(ref),1e-300))
    print(f'{name:28s} max rel err {err:.2e}')
# HH (NEURON hh.mod, 6.3C)
am=0.1*10*xe(-(v+40)/10); bm=4*exp(-(v+65)/18); ah=0.07*exp(-(v+65)/20); bh=1/(exp(-(v+35)/10)+1); an=0.01*10*xe(-(v+55)/10); bn=0.125*exp(-(v+65)/80)
g=HH.m_gate(jnp.asarray(v)); cmp('HH am',g[0],am); cmp('HH bm',g[1],bm)
g=HH.h_gate(jnp.asarray(v)); cmp('HH ah',g[0],ah); cmp('HH bh',g[1],bh)
g=HH.n_gate(jnp.asarray(v)); cmp('HH an',g[0],an); cmp('HH bn',g[1],bn)
print('HH defaults', HH().channel_params, HH().channel_states)
vt=-63.0
# Pospischil
a=-0.32*(v-vt-13)/(exp(-(v-vt-13)/4)-1); a=0.32*4*xe(-(v-vt-13)/4)
b=0.28*5*xe((v-vt-40)/5)
g=Na.m_gate(jnp.asarray(v),vt); cmp('Na am',g[0],a); cmp('Na bm',g[1],b)
g=Na.h_gate(jnp.asarray(v),vt); cmp('Na ah',g[0],0.128*exp(-(v-vt-17)/18)); cmp('Na bh',g[1],4/(1+exp(-(v-vt-40)/5)))
g=K.n_gate(jnp.asarray(v),vt); cmp('K an',g[0],0.032*5*xe(-(v-vt-15)/5)); cmp('K bn',g[1],0.5*exp(-(v-vt-10)/40))
tm=3000.
g=Km.p_gate(jnp.asarray(v),tm); cmp('Km pinf',g[0],1/(1+exp(-(v+35)/10))); cmp('Km tau',g[1],tm/(3.3*exp((v+35)/20)+exp(-(v+35)/20)))
g=CaL.q_gate(jnp.asarray(v)); cmp('CaL aq',g[0],0.055*3.8*xe((-27-v)/3.8)); cmp('CaL bq',g[1],0.94*exp((-75-v)/17))
g=CaL.r_gate(jnp.asarray(v)); cmp('CaL ar',g[0],0.000457*exp((-13-v)/50)); cmp('CaL br',g[1],0.0065/(exp((-15-v)/28)+1))
vx=2.0
g=CaT.u_gate(jnp.asarray(v),vx); cmp('CaT uinf',g[0],1/(1+exp((v+vx+81)/4)))
# save_exp clip at 20 affects exp((v+vx+113.2)/5) for v> -15: note
tauA=(30.8+(211.4+exp(np.minimum((v+vx+113.2)/5,20))))/(3.7*(1+exp(np.minimum((v+vx+84)/3.2,20))))
tauA_unclipped=(30.8+(211.4+exp((v+vx+113.2)/5)))/(3.7*(1+exp((v+vx+84)/3.2)))
cmp('CaT tau (clipped ref)',g[1],tauA); cmp('CaT tau (unclipped ref)',g[1],tauA_unclipped)
i=np.argmax(np.abs(np.asarray(g[1])-tauA_unclipped)/tauA_unclipped); print('   worst v', v[i], float(g[1][i]), tauA_unclipped[i])
for ch in [Na(),K(),Km(),CaL(),CaT(),Leak()]: print(type(ch).__name__, ch.channel_params, ch.channel_states, ch.current_name)
for s in [IonotropicSynapse(), TestSynapse(), TanhRateSynapse()]: print(type(s).__name__, s.synapse_params, s.synapse_states)
# where else does clipping at 20 bite within [-150,100]?
print('HH bm arg>20 needs v <', -65-18*20, ' ah:', -65-20*20, ' bh exp(-(v+35)/10)>e^20 for v<', -35-200)
print('Km tau exp(-0.05*(v+35))>20 for v<', -35-400, ' ; CaL bq exp((-75-v)/17): v<', -75-340, '; Na bh exp(-(v-vt-40)/5)>20: v<', vt+40-100)
