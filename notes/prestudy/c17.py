import sys; sys.path.insert(0,'/tmp/scratch/exp')
import warnings; warnings.filterwarnings('ignore')
import numpy as np
from jax import config; config.update('jax_enable_x64', True)
import jax, jax.numpy as jnp
from jaxley.optimize.transforms import *
xs=np.concatenate([np.linspace(-1e6,1e6,2001), np.linspace(-800,800,3201), np.linspace(-50,50,2001), [0.0]]); xs=np.unique(xs)
def probe(name, t, lo, hi):
    f=np.asarray(t.forward(jnp.asarray(xs)))
    fin=np.isfinite(f).all(); inb=((f>=lo)&(f<=hi)).all(); mono=(np.diff(f)>=0).all() or (np.diff(f)<=0).all()
    inv=np.asarray(t.inverse(jnp.asarray(f))); ok=np.isfinite(inv)
    rt=np.abs(inv[ok]-xs[ok])/np.maximum(1,np.abs(xs[ok]))
    # y side
    ys=np.linspace(lo if np.isfinite(lo) else hi-100, hi if np.isfinite(hi) else lo+100, 1001)[1:-1]
    xi=np.asarray(t.inverse(jnp.asarray(ys))); fy=np.asarray(t.forward(jnp.asarray(xi))); ry=np.abs(fy-ys)/np.maximum(1e-300,np.abs(ys))
    print(f'{name:30s} finite {fin} inbounds {inb} monotone {mono} | x-rt: finite {ok.mean():.2f} worst {rt.max():.1e} at x={xs[ok][rt.argmax()]:.3g} | y-rt worst {np.nanmax(ry):.1e} nan {np.isnan(ry).sum()}')
probe('Sigmoid(0,1)', SigmoidTransform(0.0,1.0), 0,1)
probe('Sigmoid(-3,1e-5-3)', SigmoidTransform(-3.0,-3.0+1e-5), -3,-3+1e-5)
probe('Sigmoid(1e-5,1e-3)', SigmoidTransform(1e-5,1e-3), 1e-5,1e-3)
probe('Softplus(0)', SoftplusTransform(0.0), 0,np.inf)
probe('Softplus(-70)', SoftplusTransform(-70.0), -70,np.inf)
probe('NegSoftplus(5)', NegSoftplusTransform(5.0), -np.inf,5)
probe('Affine(2,1)', AffineTransform(2.0,1.0), -np.inf,np.inf)
probe('Chain(Softplus,Affine5000)', ChainTransform([SoftplusTransform(0),AffineTransform(5000.0,0.0)]), 0,np.inf)
t=NegSoftplusTransform(5.0); print('NegSoftplus forward(0)=',t.forward(0.0),' inverse(4)=',t.inverse(4.0), ' fwd(inv(4))=', t.forward(t.inverse(4.0)))
