import sys; sys.path.insert(0,'/tmp/scratch/exp')
import warnings; warnings.filterwarnings('ignore')
from ref import *
import pickle, copy
from jaxley.channels import HH, Na, K
from jaxley.synapses import IonotropicSynapse
from jaxley.connect import connect
comp = jx.Compartment()
def mk(parents, ncs): return jx.Cell([jx.Branch(comp, ncomp=n) for n in ncs], parents=parents)
c1 = mk([-1,0,0,1,1],[2,2,2,2,2]); c1.insert(HH())
c1.branch(1).set_ncomp(1); c1.branch(2).set_ncomp(3)
c2 = mk([-1,0,0,1,1],[2,1,3,2,2]); c2.insert(HH())
# lengths: set_ncomp keeps total length => comp lengths 20 and 6.67 ; c2 has 10 each. adjust c2
c2.branch(1).set('length', 20.0); c2.branch(2).set('length', 20.0/3)
cols=[c for c in c1.nodes.columns]
print((c1.nodes[cols].fillna(-1)==c2.nodes[cols].fillna(-1)).all().all(), c1.ncomp_per_branch, c2.ncomp_per_branch)
for c in (c1,c2):
    c.branch(0).comp(0).stimulate(jx.step_current(0.1,1.0,0.5,0.025,2.0), verbose=False); c.record('v', verbose=False)
for vs in ['jaxley.stone','jax.sparse']:
    a=jx.integrate(c1, voltage_solver=vs); b=jx.integrate(c2, voltage_solver=vs)
    print(vs, np.abs(a-b).max())
print('--- pickle')
fname='/repo/tests/swc_files/morph_minimal.swc'
cell = jx.read_swc(fname, ncomp=2)
cell.insert(HH()); cell.branch(1).set_ncomp(3)
cell.record('v', verbose=False)
p = pickle.loads(pickle.dumps(cell))
a=jx.integrate(cell, t_max=1.0, voltage_solver='jax.sparse'); b=jx.integrate(p, t_max=1.0, voltage_solver='jax.sparse'); print(np.abs(a-b).max())
p.delete_recordings(); p.branch(0).set_ncomp(4); print(p.nodes['radius'].head(6).tolist())
net = jx.Network([cell, cell]); connect(net[0,0,0], net[1,0,0], IonotropicSynapse()); net.cell(0).add_to_group('g'); net.cell(0).make_trainable('radius', verbose=False)
net.delete_recordings(); net[1,0,0].record('v', verbose=False)
p = pickle.loads(pickle.dumps(net)); d = copy.deepcopy(net)
a=jx.integrate(net, t_max=1.0, voltage_solver='jax.sparse'); b=jx.integrate(p, t_max=1.0, voltage_solver='jax.sparse'); c=jx.integrate(d, t_max=1.0, voltage_solver='jax.sparse')
print(np.abs(a-b).max(), np.abs(a-c).max())
