"""Shared plumbing: environment set-up, calling the code under test, outcomes, hashing.

Nothing in here knows about a particular property.
"""
from __future__ import annotations

import hashlib
import json
import os
import sys
import traceback
from dataclasses import dataclass, field
from typing import Any, Callable, Dict, List, Optional

VERIF_DIR = os.path.dirname(os.path.dirname(os.path.abspath(__file__)))
REPO_DIR = os.environ.get("VERIF_REPO", "/repo")


def setup_env():
    """Make `import jaxley` resolve to the working tree under test and configure JAX.

    Called at the top of every worker process before anything imports jax.
    """
    if REPO_DIR not in sys.path[:1]:
        sys.path.insert(0, REPO_DIR)
    deps = os.path.join(VERIF_DIR, ".deps")
    if os.path.isdir(deps) and deps not in sys.path:
        sys.path.append(deps)
    os.environ.setdefault("JAX_PLATFORMS", "cpu")
    os.environ.setdefault("OMP_NUM_THREADS", "1")
    os.environ.setdefault("OPENBLAS_NUM_THREADS", "1")
    os.environ.setdefault("MKL_NUM_THREADS", "1")
    os.environ.setdefault(
        "XLA_FLAGS",
        "--xla_cpu_multi_thread_eigen=false intra_op_parallelism_threads=1",
    )
    import warnings

    warnings.filterwarnings("ignore")
    import jax

    jax.config.update("jax_enable_x64", True)
    cache = os.path.join(VERIF_DIR, ".cache", "jax")
    try:
        os.makedirs(cache, exist_ok=True)
        jax.config.update("jax_compilation_cache_dir", cache)
        jax.config.update("jax_persistent_cache_min_compile_time_secs", 0.0)
        jax.config.update("jax_persistent_cache_min_entry_size_bytes", -1)
    except Exception:
        pass
    import jaxley  # noqa: F401

    got = os.path.dirname(os.path.dirname(os.path.abspath(jaxley.__file__)))
    if os.path.realpath(got) != os.path.realpath(REPO_DIR):
        raise RuntimeError(f"jaxley imported from {got}, expected {REPO_DIR}")


# ----------------------------------------------------------------------------------------
# Calling the code under test
# ----------------------------------------------------------------------------------------


@dataclass
class SutError:
    """An exception raised while executing a call into jaxley."""

    etype: str
    msg: str
    frame: str  # innermost frame inside jaxley/: "file:function"
    raised_in_jaxley: bool  # True: the raise/assert statement itself is in jaxley/
    tb: str = ""

    def short(self) -> str:
        return f"{self.etype}@{self.frame}: {self.msg[:160]}"

    def is_refusal(self) -> bool:
        """Documented-refusal shape: an explicit raise/assert inside jaxley of a
        "you may not do this" exception type."""
        return self.raised_in_jaxley and self.etype in (
            "AssertionError",
            "ValueError",
            "KeyError",
            "NotImplementedError",
        )


def call(fn: Callable, *args, **kwargs):
    """Run `fn` (a call into jaxley). Returns (result, None) or (None, SutError)."""
    try:
        return fn(*args, **kwargs), None
    except (KeyboardInterrupt, SystemExit, MemoryError):
        raise
    except BaseException as e:  # noqa: BLE001 - judged by the caller, never swallowed
        tb = traceback.extract_tb(e.__traceback__)
        frame = "?"
        innermost_in_jaxley = False
        marker = os.sep + "jaxley" + os.sep
        for i, fr in enumerate(tb):
            if marker in fr.filename and os.sep + "verif" + os.sep not in fr.filename:
                frame = f"{os.path.basename(fr.filename)}:{fr.name}"
                innermost_in_jaxley = i == len(tb) - 1
        if frame == "?":
            raise  # no jaxley frame at all: a bug of the harness, not of the code under test
        return None, SutError(
            type(e).__name__,
            str(e).replace("\n", " ")[:400],
            frame,
            innermost_in_jaxley,
            "".join(traceback.format_exception(type(e), e, e.__traceback__))[-3000:],
        )


# ----------------------------------------------------------------------------------------
# Outcomes
# ----------------------------------------------------------------------------------------


@dataclass
class Outcome:
    """What judging one generated case produced."""

    violations: List[Dict[str, Any]] = field(default_factory=list)
    evals: int = 0  # oracle evaluations performed
    nontrivial_keys: List[str] = field(default_factory=list)  # distinct non-trivial sub-cases
    classes: List[str] = field(default_factory=list)
    refusals: List[str] = field(default_factory=list)
    internal_crashes: List[str] = field(default_factory=list)
    filtered: int = 0
    inconclusive: int = 0
    notes: List[str] = field(default_factory=list)

    def violate(self, clause: str, msg: str, **detail):
        d = {"clause": clause, "msg": msg}
        d.update(detail)
        self.violations.append(d)

    def ok(self) -> bool:
        return not self.violations


def canon(obj: Any) -> str:
    return json.dumps(obj, sort_keys=True, separators=(",", ":"), default=_default)


def _default(o):
    import numpy as np

    if isinstance(o, (np.integer,)):
        return int(o)
    if isinstance(o, (np.floating,)):
        return float(o)
    if isinstance(o, np.ndarray):
        return o.tolist()
    if isinstance(o, (np.bool_,)):
        return bool(o)
    return repr(o)


def h(obj: Any) -> str:
    return hashlib.sha1(canon(obj).encode()).hexdigest()[:16]


def jsonable(obj: Any) -> Any:
    return json.loads(canon(obj))


def spec_size(spec: Any) -> int:
    """Generic size of a spec: length of its canonical JSON."""
    return len(canon(spec))


def abbreviate(obj: Any, max_list: int = 12, depth: int = 0) -> Any:
    """Shorten long lists for the evidence samples."""
    if isinstance(obj, dict):
        return {k: abbreviate(v, max_list, depth + 1) for k, v in obj.items()}
    if isinstance(obj, (list, tuple)):
        lst = [abbreviate(v, max_list, depth + 1) for v in obj[:max_list]]
        if len(obj) > max_list:
            lst.append(f"... ({len(obj)} items)")
        return lst
    return obj
