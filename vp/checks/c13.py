"""C13 - changing the number of compartments preserves the branch and its surroundings."""
from __future__ import annotations

import os

import numpy as np
from hypothesis import strategies as st

from vp.gen.morph import fl, log_uniform
from vp import core
from vp.gen import morph as gm
from vp.gen import net as gn
from vp.ref import mech as R2

ID = "C13"
MECHS = ["HH", "Leak", "Na", "K", "Km"]
SWC_FILES = ["morph_minimal.swc", "morph_soma_both_ends.swc", "morph_250.swc", "morph_250_single_point_soma.swc"]
RULE = (
    "Hypothesis draws either a hand-built cell (2-6 branches, free parent vector, per-branch compartment count 1-4, per-branch "
    "uniform radius / compartment length / Ra / cm / voltage, channels out of HH, Leak, Na, K, Km inserted on whole branches "
    "with per-branch parameters, 0-2 named groups made of whole branches) or an SWC cell (generated tree or repository file, "
    "read with ncomp 1-4), and a sequence of 1-4 set_ncomp(n) calls (n in 1..8) on different branches. Oracles: (1) hand-built: "
    "tables and simulation (all accepting backends) equal a cell built directly with the final compartment counts; SWC: the "
    "changed branch's lengths and radii equal those of read_swc with ncomp=n; (2) total branch length, uniform properties and "
    "channels of the changed branch preserved; (3) all other branches' rows bit-identical, comb_parents unchanged; (4) every group "
    "denotes the same set of branches before and after. Non-trivial: the changed branch ends with fewer compartments than a "
    "sibling that has children, or a group contains a branch located after the changed one; distinct = hash(structure, calls)."
)
ASSUMPTIONS = [
    "documented preconditions of set_ncomp are honoured (no recordings/stimuli/trainables, not all branches of a cell, branch-uniform properties)",
    "table comparison by value (floats to 1e-12 relative: set_ncomp averages rows), column order and bookkeeping columns ignored; simulations 1e-9*max(1,|v|) over 5 steps",
    "a group 'denotes' the set of branches it was built from: after set_ncomp it must contain exactly all compartments of those branches",
]
TECHNIQUE = "property-based testing (Hypothesis): differential (set_ncomp vs direct construction / read_swc) + frame condition + group-membership invariant over call sequences"
LEVEL_TEXT = (
    "Generated cells, channel placements, groups and sequences of set_ncomp calls; the result is compared with direct construction "
    "(tables and simulation on every backend), untouched branches must stay bit-identical and groups must keep their branches."
)


def budget(tier):
    return 6 if tier == "quick" else 120


def wall_guard(tier):
    return 1500 if tier == "quick" else 7200


@st.composite
def _hand_spec(draw):
    nb = draw(st.integers(2, 6))
    parents = draw(gm.parents_vec(nb))
    branches = []
    for b in range(nb):
        chans = []
        for mech in draw(st.lists(st.sampled_from(MECHS), max_size=2, unique=True)):
            table = R2.CHANNELS[mech]
            params = {k: draw(log_uniform(d * 0.2, d * 5)) for k, d in table["params"].items() if k.startswith("g") and draw(st.booleans())}
            states = {g: draw(fl(0.05, 0.95)) for g in table["states"] if draw(st.booleans())}
            chans.append({"mech": mech, "params": params, "states": states})
        branches.append({"ncomp": draw(st.integers(1, 4)), "radius": draw(log_uniform(0.5, 5.0)), "comp_length": draw(log_uniform(5.0, 60.0)),
                         "axial_resistivity": draw(log_uniform(100.0, 3000.0)), "capacitance": draw(log_uniform(0.5, 2.0)),
                         "v": draw(fl(-75.0, -55.0)), "channels": chans})
    same_channels = draw(st.booleans())
    if same_channels:  # every branch carries the same channel set (else some branches lack a channel present elsewhere)
        for b in branches[1:]:
            b["channels"] = [dict(c) for c in branches[0]["channels"]]
    groups = {}
    for g in ("grpA", "grpB")[: draw(st.integers(0, 2))]:
        groups[g] = sorted(draw(st.sets(st.integers(0, nb - 1), min_size=1, max_size=nb)))
    ncalls = draw(st.integers(1, min(4, nb - 1)))
    targets = draw(st.permutations(list(range(nb))))[:ncalls]
    calls = [[int(b), draw(st.integers(1, 8))] for b in targets]
    return {"kind": "hand", "parents": parents, "branches": branches, "groups": groups, "calls": calls,
            "stim_branch": draw(st.integers(0, nb - 1)), "solver": draw(st.sampled_from(["bwd_euler", "crank_nicolson"]))}


@st.composite
def _swc_spec(draw):
    from vp.gen import swc as gs

    use_file = draw(st.booleans())
    spec = {"kind": "swc", "file": draw(st.sampled_from(SWC_FILES)) if use_file else None,
            "points": None if use_file else draw(gs.swc_points(max_neurites=3, max_depth=1)),
            "ncomp0": draw(st.integers(1, 4)), "min_radius": draw(st.one_of(st.none(), log_uniform(0.05, 1.0))),
            "insert_hh": draw(st.booleans())}
    spec["calls_frac"] = [[draw(fl(0.0, 0.999)), draw(st.integers(1, 8))] for _ in range(draw(st.integers(1, 3)))]
    return spec


def strategy(tier):
    return st.one_of(_hand_spec(), _hand_spec(), _swc_spec())


def size(spec):
    return (len(spec.get("branches", [])) + len(spec.get("points") or []), len(spec.get("calls", spec.get("calls_frac", []))), core.spec_size(spec))


# ---------------------------------------------------------------------------------------


def build_hand(spec, ncomps=None):
    import jaxley as jx
    import jaxley.channels as jc

    brs = []
    for i, b in enumerate(spec["branches"]):
        n0 = b["ncomp"]
        n = n0 if ncomps is None else ncomps[i]
        comp = jx.Compartment()
        br = jx.Branch([comp] * n)
        br.set("radius", b["radius"])
        br.set("length", b["comp_length"] * n0 / n)
        br.set("axial_resistivity", b["axial_resistivity"])
        br.set("capacitance", b["capacitance"])
        br.set("v", b["v"])
        brs.append(br)
    cell = jx.Cell(brs, parents=list(spec["parents"]))
    # channels are inserted on the assembled cell, branch by branch (as a user would do)
    for i, b in enumerate(spec["branches"]):
        for ch in b["channels"]:
            table = R2.CHANNELS[ch["mech"]]
            cell.branch(i).insert(getattr(jc, ch["mech"])())
            for k, val in ch["params"].items():
                cell.branch(i).set(k if k in table["globals"] else f"{ch['mech']}_{k}", float(val))
            for k, val in ch["states"].items():
                cell.branch(i).set(f"{ch['mech']}_{k}", float(val))
    for g, bl in spec["groups"].items():
        cell.branch([int(x) for x in bl]).add_to_group(g)
    return cell


def simulate(cell, spec, backend):
    import jax.numpy as jnp
    import jaxley as jx

    cell.branch(int(spec["stim_branch"])).comp(0).stimulate(jnp.asarray([0.1] * 5), verbose=False)
    # record the first compartment of every branch (exists for every compartment count)
    for b in range(len(spec["parents"])):
        cell.branch(b).comp(0).record("v", verbose=False)
    return np.asarray(jx.integrate(cell, delta_t=0.025, solver=spec["solver"], voltage_solver=backend), float)


def tables_equal(a, b):
    from vp.snap import df_diff

    cells, notes = df_diff(a, b, ignore_cols=("controlled_by_param", "x", "y", "z"), ignore_prefix=("local_",))
    return cells, notes


def branch_rows(nodes, b):
    return nodes.index[nodes["global_branch_index"] == b].to_numpy()


def judge_hand(spec, out):
    from vp import snap

    nb = len(spec["parents"])
    cell, err = core.call(build_hand, spec)
    if err:
        out.internal_crashes.append(f"build:{err.etype}@{err.frame}")
        out.notes.append(err.short()[:120])
        return out
    ncomps = [b["ncomp"] for b in spec["branches"]]
    has_children = {p for p in spec["parents"] if p >= 0}
    key = core.h([spec["parents"], ncomps, spec["calls"], spec["groups"], [[c["mech"] for c in b["channels"]] for b in spec["branches"]]])
    for (b, n) in spec["calls"]:
        before = cell.nodes.copy(deep=True)
        groups_before = {g: sorted({int(before.loc[i, "global_branch_index"]) for i in v}) for g, v in cell.groups.items()}
        order_before = {g: [int(i) for i in v] == sorted(int(i) for i in v) for g, v in cell.groups.items()}
        parents_before = np.asarray(cell.comb_parents).tolist()
        _, err = core.call(cell.branch(int(b)).set_ncomp, int(n))
        siblings_with_children = [o for o in range(nb) if o != b and spec["parents"][o] == spec["parents"][b] and o in has_children]
        nontriv = any(n < ncomps[o] for o in siblings_with_children) or any(any(x > b for x in bl) for bl in spec["groups"].values())
        if err:
            if err.is_refusal():
                # a documented precondition? only "all branches of a cell" could apply here and is excluded by construction
                out.violate("refused", f"set_ncomp({n}) on branch {b} (currently {ncomps[b]} compartments, channels {[c['mech'] for c in spec['branches'][b]['channels']]}; "
                            f"other branches carry {sorted({c['mech'] for o in spec['branches'] for c in o['channels']})}) was refused although every documented "
                            f"precondition holds: {err.short()}", etype=err.etype, frame=err.frame,
                            one_comp=bool(ncomps[b] == 1), lacks_channel=bool({c['mech'] for o in spec['branches'] for c in o['channels']} - {c['mech'] for c in spec['branches'][b]['channels']}))
            else:
                out.violate("raises", f"set_ncomp({n}) on branch {b} raised {err.short()}", etype=err.etype, frame=err.frame)
            return out
        ncomps[b] = int(n)
        out.evals += 1
        if nontriv:
            out.nontrivial_keys.append(key + f"|{b}|{n}")
        after = cell.nodes
        # (3) other branches bit-identical (values; indices shift), parents unchanged
        if np.asarray(cell.comb_parents).tolist() != parents_before:
            out.violate("parents", f"set_ncomp({n}) on branch {b} changed comb_parents {parents_before} -> {np.asarray(cell.comb_parents).tolist()}")
            return out
        value_cols = [c for c in before.columns if not c.startswith(("global_comp", "local_")) and c not in ("controlled_by_param", "x", "y", "z")]
        for o in range(nb):
            if o == b:
                continue
            r0, r1 = branch_rows(before, o), branch_rows(after, o)
            A, B = before.loc[r0, value_cols].reset_index(drop=True), after.loc[r1, value_cols].reset_index(drop=True)
            cells, notes = snap.df_diff(A, B)
            if cells or notes:
                out.violate("other-branches", f"set_ncomp({n}) on branch {b} changed branch {o}: {sorted(cells)[:4]} {notes}")
                return out
        # (2) the changed branch
        rb = branch_rows(after, b)
        bs = spec["branches"][b]
        if len(rb) != n:
            out.violate("changed-branch", f"branch {b} has {len(rb)} compartments after set_ncomp({n})")
            return out
        tot = float(after.loc[rb, "length"].sum())
        if not np.isclose(tot, bs["comp_length"] * bs["ncomp"], rtol=1e-12):
            out.violate("changed-branch", f"total length of branch {b} changed from {bs['comp_length'] * bs['ncomp']} to {tot}")
            return out
        # (4) groups denote the same branches
        groups_after = {}
        for g, v in cell.groups.items():
            rows = sorted(int(i) for i in v)
            if any(i < 0 or i >= len(after) for i in rows):
                out.violate("groups", f"group {g} refers to rows {rows} of a table with {len(after)} rows after set_ncomp({n}) on branch {b}")
                return out
            brs = sorted({int(after.loc[i, "global_branch_index"]) for i in rows})
            full = sorted(int(i) for bb in brs for i in branch_rows(after, bb))
            groups_after[g] = (brs, rows == full)
        for g, v in cell.groups.items():
            # a group view lists its compartments in the order of the group array: array-valued set(), record() and
            # multi-row stimuli go by position, so the order is part of what the group denotes
            if g in order_before and order_before[g] and [int(i) for i in v] != sorted(int(i) for i in v):
                out.violate("groups", f"group {g} listed its rows in ascending order before set_ncomp({n}) on branch {b}; afterwards it lists {[int(i) for i in v]}")
                return out
        for g, brs in groups_before.items():
            if g not in groups_after or groups_after[g][0] != brs or not groups_after[g][1]:
                out.violate("groups", f"group {g} was built from branches {spec['groups'][g]}; after set_ncomp({n}) on branch {b} it holds rows "
                            f"{sorted(int(i) for i in cell.groups.get(g, []))} = branches {groups_after.get(g, ('?',))[0]}"
                            f"{'' if groups_after.get(g, (0, True))[1] else ' (not all their compartments)'}; ncomp now {ncomps}")
                return out
    # (1) differential against direct construction with the final compartment counts
    direct, err = core.call(build_hand, spec, ncomps)
    if err:
        out.notes.append("direct build failed: " + err.short()[:80])
        return out
    out.evals += 1
    cells, notes = tables_equal(cell.nodes, direct.nodes)
    # floating point: set_ncomp averages the rows of the branch (mean of equal values, sum/n), which
    # may differ from the directly set value in the last bit
    def _close(c):
        x, y = cell.nodes.loc[c[0], c[1]], direct.nodes.loc[c[0], c[1]]
        return isinstance(x, float) and isinstance(y, float) and np.isclose(x, y, rtol=1e-12, atol=0)
    cells = {c for c in cells if not _close(c)}
    if cells or notes:
        out.violate("vs-direct-table", f"after {spec['calls']} the table differs from a cell built directly with ncomp {ncomps}: {sorted(cells)[:5]} {notes[:2]}")
        return out
    for g in direct.groups:
        if g not in cell.groups or [int(i) for i in cell.groups[g]] != [int(i) for i in direct.groups[g]]:
            out.violate("vs-direct-groups", f"after {spec['calls']} group {g} is {[int(i) for i in cell.groups.get(g, [])]}; a cell built directly with ncomp {ncomps} "
                        f"and the same add_to_group calls has {[int(i) for i in direct.groups[g]]}")
            return out
    for backend in gn.BACKENDS:
        ra, e1 = core.call(simulate, build_after(spec), spec, backend)
        rd, e2 = core.call(simulate, build_hand(spec, ncomps), spec, backend)
        if e1 or e2:
            if e1 and e2 and e1.etype == e2.etype:
                out.refusals.append(f"{backend}:{e1.etype}@{e1.frame}")
                continue
            e = e1 or e2
            out.violate("vs-direct-sim", f"{backend}: only one of set_ncomp / direct construction can be simulated: {e.short()}", etype=e.etype, frame=e.frame)
            return out
        out.evals += 1
        sc = max(1.0, float(np.max(np.abs(rd))))
        if ra.shape != rd.shape or not np.allclose(ra, rd, rtol=0, atol=1e-9 * sc):
            out.violate(f"vs-direct-sim:{backend}", f"{backend}: after {spec['calls']} the simulation differs from direct construction (ncomp {ncomps}) by "
                        f"{np.max(np.abs(ra - rd)) if ra.shape == rd.shape else ra.shape} mV; parents {spec['parents']}")
            return out
    return out


def build_after(spec):
    cell = build_hand(spec)
    for b, n in spec["calls"]:
        cell.branch(int(b)).set_ncomp(int(n))
    return cell


def judge_swc(spec, out):
    import tempfile

    import jaxley as jx
    from vp.gen import swc as gs

    if spec["file"]:
        path, tmp = os.path.join(core.REPO_DIR, "tests", "swc_files", spec["file"]), None
    else:
        tmp = tempfile.NamedTemporaryFile("w", suffix=".swc", delete=False)
        tmp.write(gs.to_text(spec["points"]))
        tmp.close()
        path = tmp.name
    try:
        k0, mr = int(spec["ncomp0"]), spec["min_radius"]
        cell, err = core.call(jx.read_swc, path, ncomp=k0, min_radius=mr)
        if err:
            out.refusals.append(f"read_swc:{err.etype}@{err.frame}")
            return out
        nb = len(np.asarray(cell.comb_parents))
        if nb < 2:
            out.filtered += 1
            return out
        if spec["insert_hh"]:
            from jaxley.channels import HH
            cell.insert(HH())
        done = set()
        for frac, n in spec["calls_frac"]:
            b = int(frac * nb)
            if b in done or len(done) >= nb - 1:
                continue
            done.add(b)
            before = cell.nodes.copy(deep=True)
            gb = {g: sorted({int(before.loc[i, "global_branch_index"]) for i in v}) for g, v in cell.groups.items()}
            ob = {g: [int(i) for i in v] == sorted(int(i) for i in v) for g, v in cell.groups.items()}
            _, err = core.call(lambda: cell.branch(b).set_ncomp(int(n), min_radius=mr))
            if err:
                cur = int((before["global_branch_index"] == b).sum())
                out.violate("refused" if err.is_refusal() else "raises", f"SWC cell: set_ncomp({n}) on branch {b} ({cur} compartments, HH={spec['insert_hh']}) failed: {err.short()}",
                            etype=err.etype, frame=err.frame, one_comp=bool(cur == 1), lacks_channel=False)
                return out
            out.evals += 1
            out.nontrivial_keys.append(core.h([spec["file"] or spec["points"], k0, b, n]))
            after = cell.nodes
            ref, err = core.call(jx.read_swc, path, ncomp=int(n), min_radius=mr)
            if err:
                continue
            rb, rr = branch_rows(after, b), branch_rows(ref.nodes, b)
            for col in ("length", "radius"):
                if not np.allclose(after.loc[rb, col].to_numpy(float), ref.nodes.loc[rr, col].to_numpy(float), rtol=1e-9):
                    out.violate("swc-profile", f"SWC cell: branch {b} after set_ncomp({n}) has {col} {after.loc[rb, col].tolist()}, read_swc(ncomp={n}) gives {ref.nodes.loc[rr, col].tolist()}")
                    return out
            for o in range(nb):
                if o == b:
                    continue
                for col in ("length", "radius", "v"):
                    if not np.array_equal(before.loc[branch_rows(before, o), col].to_numpy(), after.loc[branch_rows(after, o), col].to_numpy()):
                        out.violate("other-branches", f"SWC cell: set_ncomp({n}) on branch {b} changed {col} of branch {o}")
                        return out
            for g, brs in gb.items():
                if ob.get(g) and [int(i) for i in cell.groups[g]] != sorted(int(i) for i in cell.groups[g]):
                    out.violate("groups", f"SWC cell: type group {g} listed its rows in ascending order before set_ncomp({n}) on branch {b}; afterwards it lists {[int(i) for i in cell.groups[g]][:16]}")
                    return out
                rows = sorted(int(i) for i in cell.groups[g])
                ok = all(0 <= i < len(after) for i in rows)
                got = sorted({int(after.loc[i, "global_branch_index"]) for i in rows}) if ok else None
                full = sorted(int(i) for bb in brs for i in branch_rows(after, bb))
                if not ok or got != brs or rows != full:
                    out.violate("groups", f"SWC cell: type group {g} held branches {brs}; after set_ncomp({n}) on branch {b} it holds rows {rows[:12]} = branches {got}")
                    return out
        return out
    finally:
        if tmp is not None:
            os.unlink(path)


def judge(spec, tier="quick"):
    out = core.Outcome()
    out.classes.append(spec["kind"])
    if spec["kind"] == "hand":
        return judge_hand(spec, out)
    return judge_swc(spec, out)


PREDICATES = {}
