"""Property-based verification machinery for jaxleyverse/jaxley (see /verif/DESIGN.md)."""
