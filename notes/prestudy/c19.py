import sys; sys.path.insert(0,'/tmp/scratch/exp')
import warnings; warnings.filterwarnings('ignore')
from ref import *
import random, collections, traceback, io, contextlib
from jaxley.channels import HH, Na, K, Km, CaL, CaT, Leak
CH={'HH':HH,'Na':Na,'K':K,'Km':Km,'CaL':CaL,'CaT':CaT,'Leak':Leak}
comp=jx.Compartment()
def mk(parents,ncs): return jx.Cell([jx.Branch(comp,ncomp=n) for n in ncs],parents=parents)
BOOK={'controlled_by_param','local_cell_index','local_branch_index','local_comp_index'}
def snapshot(m):
    return dict(nodes=m.nodes.copy(), rec=m.recordings.copy(), ext={k:np.asarray(v).copy() for k,v in m.externals.items()}, exti={k:np.asarray(v).copy() for k,v in m.external_inds.items()},
                groups={k:np.asarray(v).copy() for k,v in m.groups.items()}, tr=[{k:np.asarray(v).copy() for k,v in d.items()} for d in m.trainable_params], tri=[np.asarray(i).copy() for i in m.indices_set_by_trainables], chans=[c._name for c in m.channels])
def owners(m):
    d=collections.defaultdict(list)
    for c in m.channels:
        for k in list(c.channel_params)+list(c.channel_states): d[k].append(c._name)
    return d
def invariants(m):
    n=m.nodes; N=len(n); errs=[]
    if not (n.index.to_numpy()==np.arange(N)).all(): errs.append('index')
    if not (n.global_comp_index.to_numpy()==np.arange(N)).all(): errs.append('gci')
    b=n.global_branch_index.to_numpy(); 
    if not ((np.diff(b)>=0).all() and set(np.diff(b))<= {0,1} and b[0]==0): errs.append('branch contiguity')
    names=[c._name for c in m.channels]
    for nm in names:
        if nm not in n.columns: errs.append('missing flag '+nm); continue
        if not n[nm].isin([True,False]).all(): errs.append('flag not bool '+nm)
    for col,own in owners(m).items():
        if col not in n.columns: errs.append('missing col '+col); continue
        present=np.zeros(N,bool)
        for o in own: present|=n[o].to_numpy(bool)
        notnan=~n[col].isna().to_numpy()
        if not (present==notnan).all(): errs.append(f'nan-pattern {col} present={present.astype(int).tolist()} notnan={notnan.astype(int).tolist()}')
    allcols=set(owners(m))|set(names)
    std={'length','radius','axial_resistivity','capacitance','v','global_cell_index','global_branch_index','global_comp_index','x','y','z'}|BOOK
    extra=[c for c in n.columns if c not in allcols and c not in std]
    if extra: errs.append('stale columns '+str(extra))
    if len(m.recordings)>0:
        r=m.recordings
        if (r.rec_index.to_numpy()>=N).any(): errs.append('rec oob')
        for st in r.state.unique():
            if st not in n.columns and not st.startswith('i_'): errs.append('rec of missing state '+st)
    for k,i in m.external_inds.items():
        if (np.asarray(i)>=N).any(): errs.append('ext oob')
        if k!='i' and k not in n.columns: errs.append('clamp of missing state '+k)
    for g,i in m.groups.items():
        if (np.asarray(i)>=N).any(): errs.append('group oob')
    return errs
def rand_view(m):
    nb=len(m.comb_parents); r=random.random()
    if r<0.2: return m, ('all',)
    if r<0.6:
        bs=random.sample(range(nb), random.randint(1,nb)); return m.branch(bs), ('branch',bs)
    b=random.randrange(nb); nc=int(m.ncomp_per_branch[b]); cs=random.sample(range(nc), random.randint(1,nc)); return m.branch(b).comp(cs), ('comp',b,cs)
stats=collections.Counter(); problems=collections.Counter(); examples={}
random.seed(1)
for hist in range(150):
    nb=random.randint(1,4); parents=[-1]+[random.randint(0,b-1) for b in range(1,nb)]; ncs=[random.randint(1,3) for _ in range(nb)]
    m=mk(parents,ncs); log=[('mk',parents,ncs)]
    for step in range(random.randint(3,10)):
        op=random.choice(['insert','insert','delete_channel','set','record','delete_recordings','stimulate','delete_stimuli','clamp','delete_clamps','add_to_group','make_trainable','delete_trainables','init_states','set_ncomp'])
        before=snapshot(m)
        try:
            with contextlib.redirect_stdout(io.StringIO()):
                if op=='insert':
                    v,d=rand_view(m); c=random.choice(list(CH)); v.insert(CH[c]()); log.append((op,d,c))
                elif op=='delete_channel':
                    if not m.channels: continue
                    v,d=rand_view(m); c=random.choice(m.channels); 
                    if c._name not in [x._name for x in v.channels]: continue
                    v.delete_channel(c); log.append((op,d,c._name))
                elif op=='set':
                    v,d=rand_view(m); key=random.choice(['radius','length','v']+list(owners(m)))
                    if key not in v.nodes.columns: continue
                    v.set(key, random.uniform(0.5,2)*(1 if key!='v' else -60)); log.append((op,d,key))
                elif op=='record':
                    v,d=rand_view(m); st=random.choice(['v']+[s for c in v.channels for s in c.channel_states]); v.record(st); log.append((op,d,st))
                elif op=='delete_recordings':
                    if random.random()<0.5: m.delete_recordings(); log.append((op,'module'))
                    else: v,d=rand_view(m); log.append((op,d)); v.delete_recordings()
                elif op=='stimulate':
                    v,d=rand_view(m); v.stimulate(jnp.ones(4)*random.random()); log.append((op,d))
                elif op=='delete_stimuli':
                    if random.random()<0.5: m.delete_stimuli(); log.append((op,'module'))
                    else: v,d=rand_view(m); log.append((op,d)); v.delete_stimuli()
                elif op=='clamp':
                    v,d=rand_view(m); st=random.choice(['v']+[s for c in v.channels for s in c.channel_states]); v.clamp(st, jnp.ones(4)*0.3 if st!='v' else -jnp.ones(4)*55.); log.append((op,d,st))
                elif op=='delete_clamps':
                    if random.random()<0.5: m.delete_clamps(); log.append((op,'module'))
                    else: v,d=rand_view(m); log.append((op,d)); v.delete_clamps()
                elif op=='add_to_group':
                    v,d=rand_view(m); g=random.choice(['g1','g2']); v.add_to_group(g); log.append((op,d,g))
                elif op=='make_trainable':
                    v,d=rand_view(m); key=random.choice(['radius','v']+list(owners(m)))
                    if key not in v.nodes.columns or v.nodes[key].isna().all(): continue
                    v.make_trainable(key); log.append((op,d,key))
                elif op=='delete_trainables':
                    if random.random()<0.5: m.delete_trainables(); log.append((op,'module'))
                    else: v,d=rand_view(m); log.append((op,d)); v.delete_trainables()
                elif op=='init_states':
                    m.init_states(); log.append((op,))
                elif op=='set_ncomp':
                    if len(m.externals) or len(m.recordings) or len(m.trainable_params) or nb==1: continue
                    b=random.randrange(nb); n=random.randint(1,3); log.append((op,b,n)); m.branch(b).set_ncomp(n)
            stats[op]+=1
        except Exception as ex:
            tb=traceback.extract_tb(ex.__traceback__); inner=tb[-1].filename
            kind='refusal' if '/jaxley/' in inner else 'crash'
            key=f'{op}:{kind}:{type(ex).__name__}:{str(ex)[:60]}'
            problems[key]+=1; examples.setdefault(key, list(log)); break
        errs=invariants(m)
        if errs:
            key=f'INV after {op}: {errs[0][:100]}'; problems[key]+=1; examples.setdefault(key,list(log)); break
    else:
        # final integrate
        try:
            with contextlib.redirect_stdout(io.StringIO()):
                if len(m.recordings)==0: m.record('v')
                if any(k!='i' for k in m.externals) and False: pass
                out=np.asarray(jx.integrate(m, t_max=None if m.externals else 0.1, voltage_solver='jax.sparse'))
            stats['integrate_ok' if np.isfinite(out).all() else 'integrate_nan']+=1
            if not np.isfinite(out).all(): problems['integrate NaN']+=1; examples.setdefault('integrate NaN', list(log))
        except Exception as ex:
            key=f'integrate:{type(ex).__name__}:{str(ex)[:70]}'; problems[key]+=1; examples.setdefault(key,list(log))
print(stats)
for k,v in problems.most_common(): print(v, k); print('     e.g.', examples[k][-4:])
