#!/bin/sh
# run every registered quick check once: tools/run_all.sh [seed]
cd /verif
SEED=${1:-1}
for id in $(/venv/bin/python -c "import json;print(' '.join(c['property_id'] for c in json.load(open('MANIFEST.json'))['checks']))"); do
  s=$(date +%s)
  VERIF_SEED=$SEED /venv/bin/python -m vp.run $id --tier quick > /dev/shm/runall_$id.log 2>&1
  rc=$?
  echo "$id rc=$rc $(( $(date +%s) - s ))s $(grep -c VIOLATION /dev/shm/runall_$id.log) violations; $(tail -1 /dev/shm/runall_$id.log | cut -c1-150)"
done
