"""R5 - set model of jaxley views (pure Python, no jaxley import).

A module is a list of rows (cell, branch, comp) - global indices, row id == global comp
index - plus a list of edges (pre_comp, post_comp, type). A view is (node ids, edge ids,
scope). Local indices are the dense ranks of the global index within the parent, *inside
the current view*.
"""
from __future__ import annotations

import math
from dataclasses import dataclass, field
from typing import Dict, List, Tuple


def dense(vals):
    u = sorted(set(vals))
    return {v: i for i, v in enumerate(u)}


@dataclass
class Base:
    rows: List[Tuple[int, int, int]]
    edges: List[Tuple[int, int, str]] = field(default_factory=list)
    channels: Dict[str, List[int]] = field(default_factory=dict)  # name -> node ids
    groups: Dict[str, List[int]] = field(default_factory=dict)
    ncomp_per_branch: List[int] = field(default_factory=list)


@dataclass
class ViewM:
    base: Base
    nodes: List[int]
    edges: List[int]
    scope: str = "local"
    level: str = "module"  # for lazy [] indexing: network/cell/branch/comp/other
    has_local_edge_index: bool = False

    # ---------------------------------------------------------------------------------
    def local_indices(self):
        rows = self.base.rows
        out = {}
        cells = dense(rows[i][0] for i in self.nodes)
        by_cell = {}
        for i in self.nodes:
            by_cell.setdefault(rows[i][0], []).append(i)
        for c, ids in by_cell.items():
            bs = dense(rows[j][1] for j in ids)
            by_b = {}
            for j in ids:
                by_b.setdefault(rows[j][1], []).append(j)
            for b, jds in by_b.items():
                cs = dense(rows[j][2] for j in jds)
                for j in jds:
                    out[j] = (cells[c], bs[b], cs[rows[j][2]])
        return out

    def index_values(self, level):
        """Scoped index value of every node in view for `level`."""
        pos = {"cell": 0, "branch": 1, "comp": 2}[level]
        if self.scope == "global":
            return {i: self.base.rows[i][pos] for i in self.nodes}
        li = self.local_indices()
        return {i: li[i][pos] for i in self.nodes}

    def shape(self):
        rows = self.base.rows
        return (
            len({rows[i][0] for i in self.nodes}),
            len({rows[i][1] for i in self.nodes}),
            len({rows[i][2] for i in self.nodes}),
        )

    # ---------------------------------------------------------------------------------
    def _edges_for_nodes(self, nodes):
        ns = set(nodes)
        return [e for e in self.edges if self.base.edges[e][0] in ns and self.base.edges[e][1] in ns]

    def with_nodes(self, nodes, level="other"):
        return ViewM(self.base, list(nodes), self._edges_for_nodes(nodes), self.scope, level)

    def at(self, level, idx_set):
        """cell()/branch()/comp(): idx_set is a set of ints or the string 'all'."""
        if idx_set == "all":
            keep = list(self.nodes)
        else:
            vals = self.index_values(level)
            keep = [i for i in self.nodes if vals[i] in idx_set]
        return self.with_nodes(keep, level)

    def set_scope(self, scope):
        # `.scope()` returns a plain View: lazy [] indexing is not supported on it any more
        return ViewM(self.base, list(self.nodes), list(self.edges), scope, "other", self.has_local_edge_index)

    def loc_candidates(self, x):
        """Set of acceptable node-id sets for loc(x) (boundary convention left open)."""
        rows = self.base.rows
        branches = sorted({rows[i][1] for i in self.nodes})
        first = {}
        for i, r in enumerate(rows):
            first.setdefault(r[1], i)
        options = [set()]
        for b in branches:
            n = self.base.ncomp_per_branch[b]
            t = x * n
            ks = {min(int(math.floor(t)), n - 1)}
            if abs(t - round(t)) < 1e-7:  # on a compartment boundary: both neighbours accepted
                for k in (int(round(t)) - 1, int(round(t))):
                    if 0 <= k <= n - 1:
                        ks.add(k)
            new_options = []
            for o in options:
                for k in ks:
                    new_options.append(o | {first[b] + k})
            options = new_options[:64]
        vs = set(self.nodes)
        return [sorted(o & vs) for o in options]

    def select_nodes(self, ids):
        return ViewM(self.base, list(ids), self._edges_for_nodes(ids), self.scope, "other")

    def select_edges(self, eids):
        ends = set()
        for e in eids:
            ends.add(self.base.edges[e][0])
            ends.add(self.base.edges[e][1])
        nodes = [i for i in self.nodes if i in ends]
        return ViewM(self.base, nodes, list(eids), self.scope, "other")

    def edge_global(self, idx_set):
        keep = list(self.edges) if idx_set == "all" else [e for e in self.edges if e in idx_set]
        return self.select_edges(keep)

    def edge_local(self, idx_set):
        keep = list(self.edges) if idx_set == "all" else [e for k, e in enumerate(self.edges) if k in idx_set]
        return self.select_edges(keep)

    def synapse_type(self, name):
        keep = [e for e in self.edges if self.base.edges[e][2] == name]
        v = self.select_edges(keep)
        v.has_local_edge_index = True
        return v

    def group(self, name):
        ids = [i for i in self.base.groups[name] if i in set(self.nodes)]
        return self.select_nodes(sorted(ids))

    def channel(self, name):
        ids = [i for i in self.nodes if i in set(self.base.channels[name])]
        return self.select_nodes(ids)
