"""C08 - recordings and inputs land on the right row, compartment and time step."""
from __future__ import annotations

import numpy as np
from hypothesis import strategies as st

from vp.gen.morph import fl

from vp import core
from vp.gen import morph as gm
from vp.gen import net as gn
from vp.ref import mech as R2

ID = "C08"
RULE = (
    "Hypothesis draws a cell or a network with per-compartment distinct geometry and voltages, HH/Leak/Na/K placements, "
    "0-5 synapses of up to three interleaved types, and a random interleaving of record / stimulate / clamp calls on drawn "
    "row or edge sets: voltages, gate states, membrane currents, synaptic states and synaptic currents are recorded; several "
    "stimuli may hit one compartment; v, gate and synaptic states are clamped; all inputs have L samples and the run length "
    "is L (no t_max), shorter or longer (t_max). Oracle: the harness keeps its own request log; (1) .recordings equals the "
    "log after de-duplication, (2) row k of integrate equals the trace of the k-th requested (state, target) in the reference "
    "simulator R3 driven by the LOGGED inputs (column 0 initial state, sample k acts in step k+1), clamped states equal their "
    "samples, (3) the t_max run equals the run with explicitly padded/truncated stimuli, (4) data_stimulate/data_clamp twins "
    "equal the stateful calls, (5) runs in which the stimuli alternate between stimulate() and data_stimulate() in one integrate call equal the all-stateful run. Non-trivial: >=2 recordings requested out of index order, or >=2 stimuli on one compartment, or "
    "run length != stimulus length, or a synaptic recording with interleaved types; distinct = hash(structure, op list, t_max mode)."
)
ASSUMPTIONS = [
    "float64, CPU; reference simulator R3 (vp/ref/sim.py) with inputs taken from the harness' own log, not from module.externals",
    "recorded currents follow the library's convention: value at column k is evaluated during step k with the updated gates and the pre-solve voltage",
    "a state is recorded/clamped only on objects that own it (channel state on compartments carrying the channel, synaptic state on edges of its type)",
    "t_max longer than a clamp is a documented refusal (NotImplementedError)",
    "tolerance 1e-6 + 1e-8*scale for states and voltages, 1e-7 relative to the trace maximum for currents; twins 1e-10",
]
TECHNIQUE = "property-based testing (Hypothesis): request-log model + reference simulator; metamorphic t_max padding; differential data_* twins"
LEVEL_TEXT = (
    "Generated interleavings of record/stimulate/clamp calls are checked row by row and time step by time step against a "
    "reference simulator driven by the harness' own request log, with metamorphic t_max and data_* twin oracles."
)


def budget(tier):
    return 10 if tier == "quick" else 150


def wall_guard(tier):
    return 1200 if tier == "quick" else 7200


@st.composite
def _spec(draw, tier):
    kind = draw(st.sampled_from(["cell", "network", "network"]))
    morph = draw(gm.morphology(tier, kinds=(kind,), max_branches=3, max_ncomp=3, max_cells=3, ranges=gm.RANGES_DYN))
    N = gm.n_compartments(morph["cells"])
    morph["v"] = [draw(fl(-80.0, -40.0)) for _ in range(N)]
    for key in ("radius", "length"):
        morph[key] = draw(gm.comp_values(morph["cells"], key, mode="comp", ranges=gm.RANGES_DYN))
    chans = draw(gn.channel_placement(N, mechs=("HH", "HH", "Leak", "Na", "K"), max_ch=2, allow_rename=False))
    edges = draw(gn.edge_list(N, max_edges=5, min_edges=0)) if kind == "network" and N >= 2 else []
    L = draw(st.integers(2, 8))
    ops = []
    comp_states = ["v"]
    for c in chans:
        pre = c["name"] or c["mech"]
        for g in R2.CHANNELS[c["mech"]]["states"]:
            comp_states.append((f"{pre}_{g}", c["rows"]))
        # a membrane current is only a recognised state on compartments that carry the channel
        comp_states.append((R2.CHANNELS[c["mech"]]["current_name"].format(name=pre), c["rows"]))
    edge_states = []
    for t in sorted({e["type"] for e in edges}):
        ids = [i for i, e in enumerate(edges) if e["type"] == t]
        for g in R2.SYNAPSES[t]["states"]:
            edge_states.append((f"{t}_{g}", ids))
        edge_states.append((f"i_{t}", ids))
    nops = draw(st.integers(2, 7))
    for _ in range(nops):
        k = draw(st.sampled_from(["record", "record", "record", "stimulate", "stimulate", "clamp"]))
        if k == "record":
            pool = [("v", list(range(N)))] + [s for s in comp_states if s != "v"] + edge_states
            state, owners = draw(st.sampled_from(pool))
            tg = sorted(draw(st.sets(st.sampled_from(owners), min_size=1, max_size=min(3, len(owners)))))
            ops.append({"op": "record", "state": state, "targets": tg, "on": "edges" if (state, owners) in edge_states else "nodes"})
        elif k == "stimulate":
            rows = sorted(draw(st.sets(st.integers(0, N - 1), min_size=1, max_size=2)))
            per_row = draw(st.booleans())
            samples = [[draw(fl(-0.5, 1.5)) for _ in range(L)] for _ in range(len(rows) if per_row else 1)]
            ops.append({"op": "stimulate", "targets": rows, "samples": samples})
        else:
            pool = [("v", list(range(N)))] + [s for s in comp_states if s != "v" and not s[0].startswith("i_")] + [s for s in edge_states if not s[0].startswith("i_")]
            state, owners = draw(st.sampled_from(pool))
            tg = sorted(draw(st.sets(st.sampled_from(owners), min_size=1, max_size=2)))
            lo, hi = (-80.0, -20.0) if state == "v" else (0.0, 1.0)
            samples = [[draw(fl(lo, hi)) for _ in range(L)] for _ in tg]
            ops.append({"op": "clamp", "state": state, "targets": tg, "samples": samples,
                        "on": "edges" if any(state == s[0] for s in edge_states) else "nodes"})
    if not any(o["op"] == "record" for o in ops):
        ops.append({"op": "record", "state": "v", "targets": [draw(st.integers(0, N - 1))], "on": "nodes"})
    if not any(o["op"] in ("stimulate", "clamp") for o in ops):
        ops.append({"op": "stimulate", "targets": [0], "samples": [[0.1] * L]})
    tmode = draw(st.sampled_from(["none", "none", "shorter", "longer", "equal"]))
    steps = {"none": L, "equal": L, "shorter": draw(st.integers(1, L)), "longer": L + draw(st.integers(1, 4))}[tmode]
    return {"morph": morph, "channels": chans, "edges": edges, "ops": ops, "L": L, "tmode": tmode, "steps": steps,
            "dt": draw(st.sampled_from([0.025, 0.05, 0.1])), "solver": draw(st.sampled_from(["bwd_euler", "bwd_euler", "crank_nicolson"])),
            "backend": draw(st.sampled_from(gn.BACKENDS))}


def strategy(tier):
    return _spec(tier)


def size(spec):
    return (len(spec["ops"]), len(spec["edges"]), gm.n_compartments(spec["morph"]["cells"]), core.spec_size(spec))


def _view(m, op):
    if op.get("on") == "edges":
        return m.select(edges=[int(i) for i in op["targets"]])
    return gn.view_of(m, op["targets"])


def apply_ops(m, ops, stateful_inputs=True, mixed=None):
    """mixed=0/1: stimuli alternate between stimulate() and data_stimulate() (starting with the stateful / the
    data route); clamps all take the stateful route (mixed=0) or the data route (mixed=1)."""
    import jax.numpy as jnp

    data_stimuli = None
    data_clamps = None
    n_stim = 0
    clamps_stateful = stateful_inputs
    if mixed is not None:
        clamps_stateful = mixed == 0
    for op in ops:
        if mixed is not None and op["op"] == "stimulate":
            stateful_inputs = (n_stim + mixed) % 2 == 0
            n_stim += 1
        if op["op"] == "record":
            _view(m, op).record(op["state"], verbose=False)
        elif op["op"] == "stimulate":
            arr = jnp.asarray(np.asarray(op["samples"], float))
            arr = arr[0] if arr.shape[0] == 1 else arr
            if stateful_inputs:
                _view(m, op).stimulate(arr, verbose=False)
            else:
                data_stimuli = _view(m, op).data_stimulate(arr, data_stimuli)
        elif op["op"] == "clamp":
            arr = jnp.asarray(np.asarray(op["samples"], float))
            if clamps_stateful:
                _view(m, op).clamp(op["state"], arr, verbose=False)
            else:
                data_clamps = _view(m, op).data_clamp(op["state"], arr, data_clamps)
    return data_stimuli, data_clamps


def logged(spec, steps):
    """Request log -> (expected recordings list, externals, external_inds) for R3."""
    recs = []
    for op in spec["ops"]:
        if op["op"] == "record":
            for t in op["targets"]:
                if (int(t), op["state"]) not in recs:
                    recs.append((int(t), op["state"]))
    ext, inds = {}, {}
    for op in spec["ops"]:
        if op["op"] in ("stimulate", "clamp"):
            key = "i" if op["op"] == "stimulate" else op["state"]
            arr = np.asarray(op["samples"], float)
            if arr.shape[0] == 1 and len(op["targets"]) > 1:
                arr = np.repeat(arr, len(op["targets"]), axis=0)
            L = arr.shape[1]
            if steps > L:
                arr = np.concatenate([arr, np.zeros((arr.shape[0], steps - L))], axis=1)  # only legal for stimuli
            arr = arr[:, :steps]
            ext[key] = arr if key not in ext else np.concatenate([ext[key], arr])
            ids = np.asarray(op["targets"], int)
            inds[key] = ids if key not in inds else np.concatenate([inds[key], ids])
    return recs, ext, inds


def judge(spec, tier="quick"):
    import jaxley as jx
    from vp.ref import sim as R3

    out = core.Outcome()
    ops = spec["ops"]
    L, steps, dt = int(spec["L"]), int(spec["steps"]), float(spec["dt"])
    has_clamp = any(o["op"] == "clamp" for o in ops)
    multi_clamp_same_state = len({o["state"] for o in ops if o["op"] == "clamp"}) < sum(o["op"] == "clamp" for o in ops)
    base_spec = dict(spec, stim=[])

    def build():
        return gn.build_model(base_spec, with_stim=False)

    m, err = core.call(build)
    if err:
        out.internal_crashes.append(f"build:{err.etype}@{err.frame}")
        out.notes.append("build: " + err.short()[:100])
        return out
    _, err = core.call(apply_ops, m, ops)
    if err:
        out.violate("op-raises", f"record/stimulate/clamp sequence raised {err.short()}; ops={[(o['op'], o.get('state'), o['targets']) for o in ops]}",
                    etype=err.etype, frame=err.frame)
        return out
    recs, ext, inds = logged(spec, steps)
    # (1) recordings table == request log
    out.evals += 1
    table = [(int(a), b) for a, b in zip(m.recordings["rec_index"], m.recordings["state"])]
    if table != recs:
        out.violate("recordings-table", f".recordings {table} != requests in call order {recs}")
        return out
    kw = dict(delta_t=dt, solver=spec["solver"], voltage_solver=spec["backend"])
    if spec["tmode"] != "none":
        kw["t_max"] = (steps - 0.5) * dt
    got, err = core.call(lambda: np.asarray(jx.integrate(m, **kw), float))
    if err and spec["backend"] != "jax.sparse" and "solver_utils" in err.frame:
        out.refusals.append(f"{spec['backend']}:{err.etype}@{err.frame}")
        kw["voltage_solver"] = "jax.sparse"
        got, err = core.call(lambda: np.asarray(jx.integrate(m, **kw), float))
    if err:
        if spec["tmode"] == "longer" and has_clamp and err.etype == "NotImplementedError":
            out.refusals.append("t_max longer than clamp: NotImplementedError")
            return out
        out.violate("integrate-raises", f"integrate raised {err.short()}; ops={[(o['op'], o.get('state'), o['targets']) for o in ops]}",
                    etype=err.etype, frame=err.frame)
        return out
    if spec["tmode"] == "longer" and has_clamp:
        out.violate("clamp-shorter-accepted", "a clamp shorter than t_max was accepted although the documentation says it must be at least as long")
        return out
    # classes / non-triviality
    order_idx = [r[0] for r in recs if r[1] == "v"]
    out_of_order = order_idx != sorted(order_idx) or len({r[1] for r in recs}) > 1
    stim_rows = [r for o in ops if o["op"] == "stimulate" for r in o["targets"]]
    double_stim = len(stim_rows) != len(set(stim_rows))
    types_seq = [e["type"] for e in spec["edges"]]
    runs = [t for i, t in enumerate(types_seq) if i == 0 or types_seq[i - 1] != t]
    syn_rec_interleaved = any(o["op"] == "record" and o.get("on") == "edges" for o in ops) and len(runs) > len(set(types_seq))
    for name, flag in (("recordings out of index order", out_of_order), (">=2 stimuli on one compartment", double_stim),
                       ("run length != stimulus length", steps != L), ("synaptic recording, interleaved types", syn_rec_interleaved),
                       ("clamp", has_clamp)):
        if flag:
            out.classes.append(name)
    if (len(recs) >= 2 and out_of_order) or double_stim or steps != L or syn_rec_interleaved:
        out.nontrivial_keys.append(core.h([spec["morph"]["cells"], spec["edges"], ops, spec["tmode"], steps]))
    # (2) every row against R3 driven by the logged inputs
    if got.shape != (len(recs), steps + 1):
        out.violate("shape", f"integrate returned {got.shape}; {len(recs)} recordings and {steps} steps requested")
        return out
    t = R3.extract(m)
    hist = R3.simulate(t, steps, dt, spec["solver"], externals=ext, external_inds=inds)
    if not all(np.isfinite(h).all() or k.startswith("i_") or k not in ("v",) for k, h in hist.items()) or float(np.max(np.abs(hist["v"]))) > 300.0:
        out.filtered += 1  # voltages far outside the physiological range: ill-posed draw
        return out
    for k, (idx, state) in enumerate(recs):
        ref = hist[state][idx]
        out.evals += 1
        scale = max(1.0, float(np.max(np.abs(ref)))) if not state.startswith("i_") else max(float(np.max(np.abs(ref))), 1e-12)
        tol = (1e-6 + 1e-8 * scale) if not state.startswith("i_") else 1e-7 * scale + 1e-15
        with np.errstate(invalid="ignore"):
            bad = ~(np.abs(got[k] - ref) <= tol)
        if bad.any():
            j = int(np.argmax(bad))
            # which other target has this trace?
            hint = ""
            arr = hist[state]
            for other in range(arr.shape[0]):
                if other != idx and np.all(np.abs(arr[other] - got[k]) <= tol):
                    hint = f" (it is the trace of target {other})"
                    break
            out.violate(f"row:{'edge' if state in _edge_states(spec) else 'node'}:{state.split('_')[0] if state.startswith('i_') else 'state'}",
                        f"row {k} requested as {state} of target {idx}: column {j} is {got[k, j]!r}, reference {ref[j]!r}{hint}; "
                        f"edge types {types_seq}; ops={[(o['op'], o.get('state'), o['targets']) for o in ops]}")
            return out
    # clamped states equal their samples at every returned time point after the first
    for key in ext:
        if key == "i":
            continue
        for row, tgt in enumerate(inds[key]):
            for k, (idx, state) in enumerate(recs):
                if state == key and idx == int(tgt):
                    # the last clamp on a target wins
                    last = max(r for r, tt in enumerate(inds[key]) if int(tt) == int(tgt))
                    out.evals += 1
                    if not np.allclose(got[k, 1:], ext[key][last][:steps], rtol=0, atol=1e-12):
                        out.violate("clamp-value", f"{key} of target {idx} is clamped to {ext[key][last][:steps].tolist()} but recorded {got[k, 1:].tolist()}")
                        return out
    # (3) t_max == explicit padding/truncation (stimuli only)
    if spec["tmode"] in ("shorter", "longer") and not has_clamp:
        spec2 = dict(spec, ops=[dict(o, samples=[(s + [0.0] * steps)[:steps] for s in o["samples"]]) if o["op"] == "stimulate" else o for o in ops])
        m2 = build()
        apply_ops(m2, spec2["ops"])
        kw2 = {k: v for k, v in kw.items() if k != "t_max"}
        got2, err = core.call(lambda: np.asarray(jx.integrate(m2, **kw2), float))
        if err:
            out.violate("integrate-raises", f"explicitly padded run raised {err.short()}", etype=err.etype, frame=err.frame)
            return out
        out.evals += 1
        if got2.shape != got.shape or not np.allclose(got2, got, rtol=0, atol=1e-10 * max(1.0, float(np.max(np.abs(got))))):
            out.violate("t_max", f"t_max run (steps={steps}, stimulus length {L}) differs from the explicitly padded/truncated run: shapes {got.shape} vs {got2.shape}")
            return out
    # (4) data_* twins
    m3 = build()
    res, err = core.call(apply_ops, m3, ops, False)
    if err:
        out.violate("data-twin-raises", f"data_stimulate/data_clamp sequence raised {err.short()}", etype=err.etype, frame=err.frame)
        return out
    ds, dc = res
    if not multi_clamp_same_state and len({o["state"] for o in ops if o["op"] == "clamp"}) <= 1:
        got3, err = core.call(lambda: np.asarray(jx.integrate(m3, data_stimuli=ds, data_clamps=dc, **kw), float))
        if err:
            out.violate("data-twin-raises", f"integrate with data_stimuli/data_clamps raised {err.short()}", etype=err.etype, frame=err.frame)
            return out
        out.evals += 1
        if got3.shape != got.shape or not np.allclose(got3, got, rtol=0, atol=1e-10 * max(1.0, float(np.max(np.abs(got))))):
            d = float(np.max(np.abs(got3 - got))) if got3.shape == got.shape else "shape"
            out.violate("data-twin", f"data_stimulate/data_clamp run differs from stimulate/clamp run by {d}; ops={[(o['op'], o.get('state'), o['targets']) for o in ops]}")
            return out
    # (5) mixed twins: some stimuli through stimulate(), the others through data_stimulate(), in one integrate call
    n_stim = sum(o["op"] == "stimulate" for o in ops)
    if n_stim >= 2:
        clamps_ok = not multi_clamp_same_state and len({o["state"] for o in ops if o["op"] == "clamp"}) <= 1
        for mixed in ((0, 1) if clamps_ok else (0,)):
            m4 = build()
            res, err = core.call(apply_ops, m4, ops, True, mixed)
            if err:
                out.violate("data-twin-raises", f"mixed stimulate/data_stimulate sequence raised {err.short()}", etype=err.etype, frame=err.frame)
                return out
            ds, dc = res
            got4, err = core.call(lambda: np.asarray(jx.integrate(m4, data_stimuli=ds, data_clamps=dc, **kw), float))
            if err:
                out.violate("data-twin-raises", f"integrate with stimuli from both stimulate() and data_stimulate() raised {err.short()}", etype=err.etype, frame=err.frame)
                return out
            out.evals += 1
            if got4.shape != got.shape or not np.allclose(got4, got, rtol=0, atol=1e-10 * max(1.0, float(np.max(np.abs(got))))):
                d = float(np.max(np.abs(got4 - got))) if got4.shape == got.shape else "shape"
                out.violate("data-twin-mixed", f"run with stimuli alternating between stimulate() and data_stimulate() (first one {'stateful' if mixed == 0 else 'data'}) differs from the all-stimulate run by {d}; ops={[(o['op'], o.get('state'), o['targets']) for o in ops]}")
                return out
    return out


def _edge_states(spec):
    s = set()
    for t in {e["type"] for e in spec["edges"]}:
        for g in R2.SYNAPSES[t]["states"]:
            s.add(f"{t}_{g}")
        s.add(f"i_{t}")
    return s


PREDICATES = {}
