"""C02 - axial coupling conserves charge, is reciprocal and never overshoots."""
from __future__ import annotations

import numpy as np
from hypothesis import strategies as st

from vp.gen.morph import fl

from vp import core
from vp.gen import morph as gm
from vp.checks import c01

ID = "C02"
SOLVERS = c01.SOLVERS
BACKENDS = c01.BACKENDS
RULE = (
    "Morphologies, parameters and Leak placement as in C01, dt log-uniform in (1e-6, 1e9] ms, all three backends. "
    "Per (solver, backend) one step through build_init_and_step_fn gives: (a) charge balance "
    "sum_i A_i c_i (v'_i - v_i) = dt (sum I - sum_i A_i g_i (v*_i - E_i)) with v* = v' / (v+v')/2 / v for "
    "bwd / CN / fwd, and for networks with 0-3 IonotropicSynapse/TestSynapse edges the same balance including the synaptic charge g s' (v'_post - e_syn) "
    "(bwd_euler, new synaptic states read from the returned state); (b) a uniform model at its reversal potential stays uniform; (c) bwd_euler without stimulus: "
    "min(v,E) <= v' <= max(v,E); (d) reciprocity D[i,j] = D[j,i] for ALL ordered pairs from one vmapped step over "
    "one-hot currents (N <= 16). Each clause evaluation counts once. Non-trivial: branched with a radius or length "
    "ratio > 2 across a junction, or (for (c)) dt > 10 tau_min; distinct = hash(structure, geometry class, dt decade, solver, backend)."
)
ASSUMPTIONS = [
    "float64, CPU; identities are evaluated on observed voltages and the generated per-compartment parameters only",
    "tolerances are rounding bounds derived per case: delta = (max(1e3*n*eps, 1e-11)*cond + 1e-9)*max|v| + 1e-8 mV with cond of the scheme's "
    "matrix from R1 (cases with cond > 1e12 are filtered and counted); charge residual <= sum_i (C_i + dt G_i) * delta",
    "reciprocity tolerance 1e-7 * max|D| + delta-level floor",
    "a backend that raises is a counted refusal",
]
TECHNIQUE = "property-based testing (Hypothesis): physical invariants (conservation, maximum principle, reciprocity) as metamorphic/invariant oracles"
LEVEL_TEXT = (
    "Generated morphologies, parameters and time steps over fifteen decades; conservation of charge, uniformity, the discrete "
    "maximum principle and reciprocity over all ordered compartment pairs are evaluated on the observed voltages. Search, not proof."
)


def budget(tier):
    return 12 if tier == "quick" else 220


@st.composite
def _spec(draw, tier):
    base = draw(c01._spec(tier))
    base["dt"] = draw(st.one_of(st.sampled_from([0.025, 1e3, 1e9, 1e6]), gm.log_uniform(1e-6, 1e9), gm.log_uniform(1e-6, 1e9), gm.log_uniform(1e-3, 1e3)))
    base["recip_backend"] = draw(st.sampled_from(BACKENDS))
    base["recip_solver"] = draw(st.sampled_from(["bwd_euler", "crank_nicolson"]))
    base["e_uniform"] = draw(fl(-90.0, -40.0))
    # networks: a few conductance-based synapses, so that the charge carried by synaptic currents is part of the balance
    N = gm.n_compartments(base["morph"]["cells"])
    base["syn"] = []
    if base["morph"]["kind"] == "network" and N >= 2:
        for _ in range(draw(st.integers(0, 3))):
            pre = draw(st.integers(0, N - 1))
            post = draw(st.integers(0, N - 2))
            post = post if post < pre else post + 1
            base["syn"].append({"pre": pre, "post": post, "type": draw(st.sampled_from(["IonotropicSynapse", "TestSynapse"])),
                                "g": draw(gm.log_uniform(1e-5, 1e-2)), "e_syn": draw(fl(-80.0, 10.0)), "s": draw(fl(0.0, 1.0))})
    return base


def strategy(tier):
    return _spec(tier)


size = c01.size


def _geom_class(spec):
    m = spec["morph"]
    parents, ncomps = gm.global_structure(m)
    cums = np.concatenate([[0], np.cumsum(ncomps)]).astype(int)
    r, l = np.asarray(m["radius"]), np.asarray(m["length"])
    big = False
    for b, p in enumerate(parents):
        if p >= 0:
            i, j = cums[p + 1] - 1, cums[b]
            if max(r[i] / r[j], r[j] / r[i]) > 2 or max(l[i] / l[j], l[j] / l[i]) > 2:
                big = True
    return big


def _delta(cab, solver, dt, v0, got, gm_mS, const):
    be, cond = cab.backward_error(solver, dt, v0, got, gm_mS, const)
    scale = max(float(np.max(np.abs(got))), float(np.max(np.abs(v0))), 1.0)
    return (c01.bwd_unit(cab.N) * cond + 1e-9) * scale + 1e-8, cond


def judge(spec, tier="quick"):
    import jax
    import jax.numpy as jnp
    from jaxley.integrate import build_init_and_step_fn

    out = core.Outcome()
    cab, gm_mS, const = c01.reference(spec)
    N = cab.N
    dt = float(spec["dt"])
    v0 = np.asarray(spec["morph"]["v"], float)
    m, err = core.call(c01.build, spec)
    if err:
        out.internal_crashes.append(f"build:{err.etype}@{err.frame}")
        return out
    g = np.zeros(N)
    e = np.zeros(N)
    for r, gg, ee in zip(spec["leak"]["rows"], spec["leak"]["g"], spec["leak"]["e"]):
        g[r], e[r] = gg, ee
    G = g * cab.area * 1e3  # mS
    C = cab.C
    I = np.zeros(N)
    for r, amp in spec["stim"]:
        I[r] += amp * 1e-3  # uA
    big = _geom_class(spec)
    branched = "branched" in gm.structure_classes(spec["morph"])
    struct_key = core.h([spec["morph"]["cells"], spec["morph"]["kind"]])
    tau_min = float(np.min(np.where(g > 0, np.asarray(spec["morph"]["capacitance"]) / np.maximum(g, 1e-300) * 1e-3, np.inf)))
    decade = int(np.floor(np.log10(dt)))
    out.classes.extend(gm.structure_classes(spec["morph"]))
    out.classes.append(f"dt decade {decade:+d}")
    if big:
        out.classes.append("junction ratio > 2")
    for solver in SOLVERS:
        for backend in BACKENDS:
            got, err = core.call(c01.one_step_stepfn, m, spec, solver, backend)
            if err:
                out.refusals.append(f"{solver}/{backend}:{err.etype}@{err.frame}")
                continue
            if not np.isfinite(got).all():
                if solver == "fwd_euler":
                    out.notes.append("fwd_euler overflowed (unstable dt): not judged")
                    continue
                out.violate("finite", f"{solver}/{backend}: non-finite voltages for dt={dt}")
                continue
            delta, cond = _delta(cab, solver, dt, v0, got, gm_mS, const)
            if cond > 1e12 or (solver == "fwd_euler" and np.max(np.abs(got)) > 1e6):
                out.filtered += 1
                continue
            key = f"{struct_key}|{int(big)}|{decade}|{solver}|{backend}"
            # (a) charge balance
            vstar = got if solver == "bwd_euler" else (0.5 * (v0 + got) if solver == "crank_nicolson" else v0)
            lhs = float(np.sum(C * (got - v0)))
            rhs = float(dt * (np.sum(I) - np.sum(G * (vstar - e))))
            tol = float(np.sum((C + dt * G) * delta)) + 1e-12 * (abs(lhs) + abs(rhs))
            out.evals += 1
            if branched and big:
                out.nontrivial_keys.append(key + "|charge")
            if not abs(lhs - rhs) <= tol:
                out.violate(f"charge:{solver}:{backend}", f"{solver}/{backend} dt={dt}: change of membrane charge {lhs!r} uC-units vs injected minus "
                            f"membrane charge {rhs!r} (tolerance {tol:.2e}); cells={spec['morph']['cells']}")
            # (c) no overshoot (bwd_euler, no stimulus)
            if solver == "bwd_euler" and not spec["stim"]:
                lo = min(float(np.min(v0)), float(np.min(e[g > 0])) if (g > 0).any() else np.inf)
                hi = max(float(np.max(v0)), float(np.max(e[g > 0])) if (g > 0).any() else -np.inf)
                out.evals += 1
                if dt > 10 * tau_min or (branched and big):
                    out.nontrivial_keys.append(key + "|bounds")
                if float(np.min(got)) < lo - delta or float(np.max(got)) > hi + delta:
                    out.violate(f"overshoot:{backend}", f"bwd_euler/{backend} dt={dt}: voltages [{np.min(got)!r}, {np.max(got)!r}] leave "
                                f"[{lo!r}, {hi!r}] spanned by previous voltages and reversal potentials; cells={spec['morph']['cells']}")
    # (b) uniform model stays uniform
    E0 = float(spec["e_uniform"])
    spec_u = dict(spec)
    spec_u["morph"] = dict(spec["morph"], v=[E0] * N)
    spec_u["leak"] = dict(spec["leak"], e=[E0] * len(spec["leak"]["rows"]))
    spec_u["stim"] = []
    mu, err = core.call(c01.build, spec_u)
    if not err:
        for solver in SOLVERS[:2]:
            for backend in BACKENDS:
                got, err = core.call(c01.one_step_stepfn, mu, spec_u, solver, backend)
                if err:
                    continue
                out.evals += 1
                if branched and big:
                    out.nontrivial_keys.append(f"{struct_key}|{decade}|{solver}|{backend}|uniform")
                dev = float(np.max(np.abs(got - E0)))
                _, cond = cab.backward_error(solver, dt, np.full(N, E0), got, gm_mS, gm_mS * E0)
                if cond > 1e12:
                    out.filtered += 1
                    continue
                if not dev <= (c01.bwd_unit(N) * cond + 1e-9) * abs(E0) + 1e-8:
                    out.violate(f"uniform:{solver}:{backend}", f"{solver}/{backend} dt={dt}: uniform model at E={E0} moved by {dev:.3e} mV; cells={spec['morph']['cells']}")
    # (a') charge balance including synaptic currents (networks with conductance-based synapses, bwd_euler)
    if spec.get("syn"):
        _judge_synaptic_charge(spec, out, cab, G, C, I, e, v0, dt, N, struct_key, decade)
    # (d) reciprocity over all ordered pairs
    if 2 <= N <= 16:
        solver, backend = spec["recip_solver"], spec["recip_backend"]

        def run():
            m.to_jax()
            init_fn, step_fn = build_init_and_step_fn(m, voltage_solver=backend, solver=solver)
            states, params = init_fn([], None, None, dt)
            inds = {"i": jnp.arange(N)}
            f = lambda amps: step_fn(states, params, {"i": amps}, inds, dt)["v"]
            amp = 1.0
            D1 = np.asarray(jax.vmap(f)(amp * jnp.eye(N)), float)
            D0 = np.asarray(f(jnp.zeros(N)), float)
            return D1 - D0[None, :]

        D, err = core.call(run)
        if err:
            out.refusals.append(f"reciprocity {solver}/{backend}:{err.etype}@{err.frame}")
        elif np.isfinite(D).all():
            _, cond = cab.backward_error(solver, dt, v0, v0, gm_mS, const)
            if cond <= 1e12:
                out.evals += N * (N - 1) // 2
                asym = np.abs(D - D.T)
                scale = float(np.max(np.abs(D)))
                tol = 1e-7 * scale + (c01.bwd_unit(N) * cond + 1e-9) * max(float(np.max(np.abs(v0))), 1.0) * 10
                if branched and big:
                    out.nontrivial_keys.append(f"{struct_key}|{decade}|{solver}|{backend}|reciprocity")
                if float(np.max(asym)) > tol:
                    i, j = np.unravel_index(int(np.argmax(asym)), asym.shape)
                    out.violate(f"reciprocity:{solver}:{backend}", f"{solver}/{backend} dt={dt}: 1 nA at compartment {i} changes compartment {j} by {D[i, j]!r} mV "
                                f"but 1 nA at {j} changes {i} by {D[j, i]!r} mV; cells={spec['morph']['cells']}")
            else:
                out.filtered += 1
    return out


def _judge_synaptic_charge(spec, out, cab, G, C, I, e, v0, dt, N, struct_key, decade):
    """sum C dv = dt (sum I - sum G (v' - E) - sum_syn g s' (v'_post - e_syn)) for one backward Euler step; the new synaptic
    states s' are read from the state dictionary the step function returns."""
    import jax.numpy as jnp
    from jaxley.connect import connect
    from jaxley.integrate import build_init_and_step_fn
    import jaxley.synapses as js

    def run(backend):
        m = c01.build(spec)
        for k, sy in enumerate(spec["syn"]):
            connect(m.select(nodes=[int(sy["pre"])]), m.select(nodes=[int(sy["post"])]), getattr(js, sy["type"])())
            gkey, skey = ("IonotropicSynapse_gS", "IonotropicSynapse_s") if sy["type"] == "IonotropicSynapse" else ("TestSynapse_gC", "TestSynapse_c")
            m.select(edges=[k]).set(gkey, float(sy["g"]))
            m.select(edges=[k]).set(skey, float(sy["s"]))
            if sy["type"] == "IonotropicSynapse":
                m.select(edges=[k]).set("IonotropicSynapse_e_syn", float(sy["e_syn"]))
        m.to_jax()
        init_fn, step_fn = build_init_and_step_fn(m, voltage_solver=backend, solver="bwd_euler")
        states, params = init_fn([], None, None, dt)
        ext = {"i": jnp.asarray([a for _, a in spec["stim"]], dtype=float)} if spec["stim"] else {}
        inds = {"i": jnp.asarray([r for r, _ in spec["stim"]], dtype=int)} if spec["stim"] else {}
        new = step_fn(states, params, ext, inds, dt)
        return {k: np.asarray(v, float) for k, v in new.items()}, m.edges.copy()

    for backend in BACKENDS:
        res, err = core.call(run, backend)
        if err:
            out.refusals.append(f"synaptic bwd_euler/{backend}:{err.etype}@{err.frame}")
            continue
        new, edges = res
        v1 = new["v"]
        if not np.isfinite(v1).all():
            continue
        isyn = 0.0  # uA
        for t, skey, ekey in (("IonotropicSynapse", "IonotropicSynapse_s", "IonotropicSynapse_e_syn"), ("TestSynapse", "TestSynapse_c", None)):
            ids = [k for k, sy in enumerate(spec["syn"]) if sy["type"] == t]
            for rank, k in enumerate(ids):
                sy = spec["syn"][k]
                esyn = sy["e_syn"] if ekey else 0.0
                isyn += sy["g"] * float(new[skey][rank]) * (v1[sy["post"]] - esyn) * 1e-3  # uS * mV = nA -> uA
        lhs = float(np.sum(C * (v1 - v0)))
        rhs = float(dt * (np.sum(I) - np.sum(G * (v1 - e)) - isyn))
        gsyn_mS = sum(sy["g"] for sy in spec["syn"]) * 1e-3
        scale = max(float(np.max(np.abs(v1))), float(np.max(np.abs(v0))), 1.0)
        delta = (c01.bwd_unit(N) * 1e6 + 1e-9) * scale + 1e-8
        tol = float(np.sum(C + dt * G) + dt * gsyn_mS) * delta + 1e-12 * (abs(lhs) + abs(rhs))
        out.evals += 1
        out.classes.append("synaptic charge balance")
        out.nontrivial_keys.append(f"{struct_key}|{decade}|{backend}|syn{len(spec['syn'])}")
        if not abs(lhs - rhs) <= tol:
            out.violate(f"charge-synaptic:{backend}", f"bwd_euler/{backend} dt={dt}: change of membrane charge {lhs!r} vs injected minus membrane minus synaptic charge {rhs!r} "
                        f"(tolerance {tol:.2e}); synapses {[(sy['pre'], sy['post'], sy['type']) for sy in spec['syn']]}; cells={spec['morph']['cells']}")


PREDICATES = {}
