"""C11 - views select exactly the described compartments; writes through a view are confined."""
from __future__ import annotations

import numpy as np
from hypothesis import strategies as st

from vp.gen.morph import fl

from vp import core
from vp.gen import morph as gm
from vp.ref.viewmodel import Base, ViewM

ID = "C11"
RULE = (
    "Model-directed Hypothesis generation: a cell or a network of 1-3 cells with heterogeneous branch and compartment "
    "counts, 0-5 synapses of two types, HH/Leak on drawn compartment subsets and named groups; then a selection chain "
    "(cell/branch/comp with int, list, numpy array, range, slice, boolean mask or 'all' indices; loc; select(nodes)/"
    "select(edges); group, channel-name and synapse-type views; edge(); scope switches; lazy [] and iteration), each "
    "index drawn from the indices that exist at that point (sometimes a missing one); before a step another view may be derived "
    "from the same intermediate view object and discarded (scope(), loc(), comp('all')), which must not affect the chain; finally one mutating call through "
    "the view (set, insert, record, stimulate, clamp, add_to_group, move). Oracle: set model R5 for the node and edge "
    "rows and the three local index columns after every chain, and a frame condition (diff of all public tables equals "
    "the expected rows x columns) after the mutation. One evaluation per chain and per mutation. Non-trivial: chain "
    "depth >=2 on a module in which some local index differs from the global one; distinct = hash(structure, chain)."
)
ASSUMPTIONS = [
    "boundary convention of loc(x) at x*ncomp integer is not documented: both neighbouring compartments are accepted",
    "slices only with non-negative start/stop/step; boolean masks only where their meaning is unambiguous "
    "(mask positions are the scoped index values and no other view dimension has the same length)",
    "edges are selected only via select(edges=), scope('global').edge() and .edge() on a synapse-type view",
    "an empty selection must raise ValueError('Nothing in view'), any other outcome on a non-empty selection is judged",
]
TECHNIQUE = "model-based property testing (Hypothesis, set model of views) + frame-condition oracle on table diffs"
LEVEL_TEXT = (
    "Generated irregular modules and selection chains are compared with an independent set model of views (rows, edges, "
    "local indices); a mutating call through the view is checked against the exact expected table diff. Search, not proof."
)
SYN_TYPES = ["IonotropicSynapse", "TestSynapse"]


def budget(tier):
    return 60 if tier == "quick" else 800


# ---------------------------------------------------------------------------------------
# model construction from a spec
# ---------------------------------------------------------------------------------------


def model_base(spec):
    rows = gm.rows({"cells": spec["cells"]})
    ncomps = [n for c in spec["cells"] for n in c["ncomp"]]
    return Base(
        rows=rows,
        edges=[tuple(e) for e in spec["edges"]],
        channels={k: list(v) for k, v in spec["channels"].items()},
        groups={k: sorted(v) for k, v in spec["groups"].items()},
        ncomp_per_branch=ncomps,
    )


def root_view(spec):
    b = model_base(spec)
    return ViewM(b, list(range(len(b.rows))), list(range(len(b.edges))), "local", spec["kind"])


# ---------------------------------------------------------------------------------------
# index forms
# ---------------------------------------------------------------------------------------


def idx_to_set(form, nbase=None, dim_values=None):
    if form == "all":
        return "all"
    (k, v), = form.items()
    if k == "int":
        return {v}
    if k in ("list", "array"):
        return set(v)
    if k == "range":
        return set(range(*v))
    if k == "slice":
        return set(range(nbase)[slice(*v)])
    if k == "mask":
        return {i for i, m in enumerate(v) if m}
    raise ValueError(form)


def idx_to_py(form):
    if form == "all":
        return "all"
    (k, v), = form.items()
    if k == "int":
        return int(v)
    if k == "list":
        return [int(x) for x in v]
    if k == "array":
        return np.asarray(v, dtype=int)
    if k == "range":
        return range(*v)
    if k == "slice":
        return slice(*v)
    if k == "mask":
        return np.asarray(v, dtype=bool)
    raise ValueError(form)


@st.composite
def _index_form(draw, avail, nbase, mask_dim_ok, prefer_slice=False):
    """An index over the available scoped values `avail` (sorted list of ints)."""
    kind = draw(st.sampled_from(["int", "int", "list", "array", "range", "slice", "mask", "all", "missing", "dupgap"]))
    if kind == "dupgap":
        # repeated entries around a gap, as many entries as the span is wide ([0, 2, 2], [3, 1, 1], [5, 7, 7, 9, 9]): a
        # selection test that looks at min, max and the number of entries takes this for a contiguous block
        lo_ = draw(st.sampled_from(avail))
        his = [x for x in avail if x >= lo_ + 2]
        if not his:
            kind = "list"
        else:
            hi_ = draw(st.sampled_from(his))
            inner = [x for x in avail if lo_ < x < hi_]
            keep = draw(st.lists(st.sampled_from(inner), max_size=max(0, len(inner) - 1), unique=True)) if len(inner) > 1 else []
            vals = [lo_, hi_] + keep
            while len(vals) < hi_ - lo_ + 1:
                vals.append(draw(st.sampled_from([lo_, hi_] + keep)))
            vals = draw(st.permutations(vals))
            return {draw(st.sampled_from(["list", "array"])): [int(x) for x in vals]}
    if prefer_slice and draw(st.booleans()):
        # a sub-view seen in global scope: slices and ranges count in *global* indices, which exceed the view's size
        kind = draw(st.sampled_from(["slice", "slice", "range"]))
    hi = max(avail)
    if kind == "all":
        return "all"
    if kind == "int":
        return {"int": draw(st.sampled_from(avail))}
    if kind == "missing":
        return {"list": sorted(draw(st.sets(st.sampled_from(avail), max_size=2))) + [hi + draw(st.integers(1, 3))]}
    if kind in ("list", "array"):
        vals = draw(st.lists(st.sampled_from(avail), min_size=1, max_size=len(avail) + 1))
        if draw(st.booleans()):
            vals = sorted(set(vals))
        return {kind: vals}
    if kind == "range":
        a = draw(st.integers(0, hi))
        b = draw(st.integers(a + 1, hi + 2))
        return {"range": [a, b, draw(st.integers(1, 2))]}
    if kind == "slice":
        a = draw(st.integers(0, hi))
        b = draw(st.one_of(st.integers(a + 1, hi + 2), st.none()))
        return {"slice": [draw(st.sampled_from([a, a, None])) if a == 0 else a, b, draw(st.sampled_from([1, 2, None]))]}
    # mask
    if mask_dim_ok and avail == list(range(len(avail))):
        m = [draw(st.booleans()) for _ in avail]
        return {"mask": m}
    return {"list": [draw(st.sampled_from(avail))]}


# ---------------------------------------------------------------------------------------
# spec strategy (model-directed)
# ---------------------------------------------------------------------------------------


@st.composite
def _module(draw, tier):
    kind = draw(st.sampled_from(["cell", "network", "network"]))
    if kind == "cell":
        cells = [draw(gm.cell_struct(5, 4))]
    else:
        cells = [draw(gm.cell_struct(4, 3)) for _ in range(draw(st.integers(1, 3)))]
    N = gm.n_compartments(cells)
    edges = []
    if kind == "network" and N >= 2:
        for _ in range(draw(st.integers(0, 5))):
            pre = draw(st.integers(0, N - 1))
            post = draw(st.integers(0, N - 2))
            post = post if post < pre else post + 1
            edges.append([pre, post, draw(st.sampled_from(SYN_TYPES))])
    sub = lambda: sorted(draw(st.sets(st.integers(0, N - 1), min_size=1, max_size=N)))
    channels = {}
    if draw(st.booleans()):
        channels["HH"] = sub()
    if draw(st.booleans()):
        channels["Leak"] = sub()
    groups = {}
    for g in ("grpA", "grpB")[: draw(st.integers(0, 2))]:
        groups[g] = sub()
    return {"kind": kind, "cells": cells, "edges": edges, "channels": channels, "groups": groups, "chan_vals": draw(st.booleans())}


def _levels(kind):
    return ["cell", "branch", "comp"] if kind == "network" else ["branch", "comp"]


@st.composite
def _chain(draw, spec):
    """Draw a chain of selection ops, tracking the model so that indices exist."""
    view = root_view(spec)
    nbase = len(view.base.rows)
    chain = []
    levels = _levels(spec["kind"])
    edge_types = sorted({e[2] for e in spec["edges"]})
    plan = []
    for lev in levels:
        if draw(st.integers(0, 3)) > 0:
            if draw(st.integers(0, 2)) == 0:
                plan.append("scope")  # switch scope right before a level selection
            plan.append(lev)
    extras = draw(st.lists(st.sampled_from(["scope", "loc", "select_nodes", "group", "channel", "syn", "edge_global",
                                             "select_edges", "getitem", "iter"]), max_size=2))
    ops = plan + extras
    order = draw(st.permutations(range(len(ops)))) if draw(st.integers(0, 3)) == 0 else list(range(len(ops)))
    # keep hierarchy order for the level ops, sprinkle extras
    ops = [ops[i] for i in sorted(order[: len(ops)], key=lambda i: (ops[i] in levels and levels.index(ops[i]) or 0, i))] if False else ops
    if draw(st.booleans()):
        # interleave extras at drawn positions while keeping the level order
        ops = list(plan)
        for e in extras:
            ops.insert(draw(st.integers(0, len(ops))), e)
    for op in ops:
        if not view.nodes:
            break
        if op in levels:
            vals = view.index_values(op)
            avail = sorted(set(vals.values()))
            shape = view.shape()[-len(levels):]
            dim = shape[levels.index(op)]
            dims = list(shape) + [len(view.edges)]
            unamb = dims.index(dim) == levels.index(op) and len(avail) == dim
            form = draw(_index_form(avail, nbase, unamb, prefer_slice=view.scope == "global" and min(avail) > 0))
            chain.append([op, form])
            view = view.at(op, idx_to_set(form, nbase))
        elif op == "scope":
            s = "global" if view.scope == "local" else "local"
            chain.append(["scope", s])
            view = view.set_scope(s)
        elif op == "loc":
            x = draw(st.one_of(st.sampled_from([0.0, 1.0, 0.5, 0.25, 0.3, 0.9]), fl(0.0, 1.0)))
            chain.append(["loc", x])
            cands = view.loc_candidates(x)
            view = view.with_nodes(cands[0], "other")
            view._loc_candidates = cands
            break  # loc ends the chain (its result set may be one of several)
        elif op == "select_nodes":
            ids = sorted(draw(st.sets(st.sampled_from(view.nodes), min_size=1)))
            chain.append(["select_nodes", ids])
            view = view.select_nodes(ids)
        elif op == "group" and spec["groups"]:
            g = draw(st.sampled_from(sorted(spec["groups"])))
            chain.append(["group", g])
            view = view.group(g)
        elif op == "channel" and any(set(r) & set(view.nodes) for r in spec["channels"].values()):
            # only channels present in the view: for an absent channel the library returns
            # `select(None)` (documented as "all nodes are viewed"); what `view.<channel>` denotes
            # then is not documented, so it is not generated
            c = draw(st.sampled_from(sorted(k for k, r in spec["channels"].items() if set(r) & set(view.nodes))))
            chain.append(["channel", c])
            view = view.channel(c)
        elif op == "syn" and edge_types and view.edges:
            # only types that have an edge in view: the node set of a type view without any
            # edge is not documented (the library returns the parent view)
            t = draw(st.sampled_from(sorted({view.base.edges[e][2] for e in view.edges})))
            chain.append(["syn", t])
            view = view.synapse_type(t)
            if view.edges and draw(st.booleans()):
                # `.edge()` on a synapse-type view follows the scope of the view: the global edge
                # index in global scope, the rank within the type view in local scope
                if view.scope == "global":
                    k = sorted(draw(st.sets(st.sampled_from(view.edges), min_size=1)))
                    chain.append(["edge_on_type_view", {"list": k}])
                    view = view.edge_global(set(k))
                else:
                    k = sorted(draw(st.sets(st.integers(0, len(view.edges) - 1), min_size=1)))
                    chain.append(["edge_on_type_view", {"list": k}])
                    view = view.edge_local(set(k))
        elif op == "edge_global" and view.edges:
            k = sorted(draw(st.sets(st.sampled_from(view.edges), min_size=1)))
            chain.append(["edge_global", {"list": k}])
            view = view.set_scope("global").edge_global(set(k))
        elif op == "select_edges" and view.edges:
            k = sorted(draw(st.sets(st.sampled_from(view.edges), min_size=1)))
            chain.append(["select_edges", k])
            view = view.select_edges(k)
        elif op == "getitem" and view.level in ("network", "cell", "branch") and not chain_has_scope_global(chain):
            sub = levels[levels.index(view.level) + 1:] if view.level in levels else levels
            forms = []
            for lev in sub[: draw(st.integers(1, len(sub)))]:
                if not view.nodes:
                    break
                avail = sorted(set(view.index_values(lev).values()))
                f = draw(_index_form(avail, nbase, False))
                forms.append(f)
                view = view.at(lev, idx_to_set(f, nbase))
            chain.append(["getitem", forms])
        elif op == "iter":
            lev = draw(st.sampled_from(levels))
            avail = sorted(set(view.index_values(lev).values()))
            k = draw(st.integers(0, len(avail) - 1))
            chain.append(["iter", lev, k])
            view = view.at(lev, {avail[k]})
    return chain


def chain_has_scope_global(chain):
    return False


@st.composite
def _mutation(draw, spec):
    kind = draw(st.sampled_from(["set_node", "set_chan", "set_edge", "insert", "record", "stimulate", "clamp",
                                 "add_to_group", "move", "none"]))
    m = {"op": kind}
    if kind == "set_node":
        m["key"] = draw(st.sampled_from(["radius", "length", "v", "capacitance"]))
        m["val"] = draw(fl(0.5, 50.0))
    elif kind == "set_chan":
        m["key"] = draw(st.sampled_from(["HH_gNa", "HH_m", "Leak_gLeak"]))
        m["val"] = draw(fl(0.001, 0.9))
    elif kind == "set_edge":
        m["key"] = draw(st.sampled_from(["IonotropicSynapse_gS", "TestSynapse_gC", "IonotropicSynapse_s"]))
        m["val"] = draw(fl(0.001, 0.9))
    elif kind == "insert":
        m["channel"] = draw(st.sampled_from(["Km", "HH", "Leak"]))
    elif kind == "record":
        m["state"] = "v"
    elif kind in ("stimulate", "clamp"):
        m["len"] = draw(st.integers(1, 4))
        m["amp"] = draw(fl(-1.0, 1.0))
    elif kind == "add_to_group":
        m["name"] = draw(st.sampled_from(["grpA", "grpNew"]))
    elif kind == "move":
        m["xyz"] = [draw(fl(-100, 100)) for _ in range(3)]
    return m


@st.composite
def _spec(draw, tier):
    spec = draw(_module(tier))
    spec["chain"] = draw(_chain(spec))
    # views are values: deriving another view from an intermediate view (and discarding it) must not change
    # what later selections made from that same view object denote
    spec["side"] = [draw(st.sampled_from([None, None, "scope_global", "scope_local", "loc0", "comp_all"])) for _ in spec["chain"]]
    spec["mutation"] = draw(_mutation(spec))
    return spec


def strategy(tier):
    return _spec(tier)


def size(spec):
    return (len(spec["chain"]), gm.n_compartments(spec["cells"]), len(spec["edges"]), core.spec_size(spec))


# ---------------------------------------------------------------------------------------
# build and apply
# ---------------------------------------------------------------------------------------


def build(spec):
    import jaxley as jx
    from jaxley.channels import HH, Leak
    from jaxley.connect import connect
    from jaxley.synapses import IonotropicSynapse, TestSynapse
    from vp.build import build_cell

    if spec["kind"] == "cell":
        m = build_cell(spec["cells"][0])
    else:
        m = jx.Network([build_cell(c) for c in spec["cells"]])
    syn = {"IonotropicSynapse": IonotropicSynapse, "TestSynapse": TestSynapse}
    for pre, post, t in spec["edges"]:
        connect(m.select(nodes=[int(pre)]), m.select(nodes=[int(post)]), syn[t]())
    chan = {"HH": HH, "Leak": Leak}
    for name, rows in spec["channels"].items():
        m.select(nodes=[int(r) for r in rows]).insert(chan[name]())
        if spec.get("chan_vals"):
            # customised (non-default) parameters and states on some rows: a later mutation through another view
            # must leave them alone
            obj = chan[name]()
            for j, r in enumerate(list(rows)[:3]):
                for key, dflt in list(obj.channel_params.items())[:2] + list(obj.channel_states.items())[:1]:
                    m.select(nodes=[int(r)]).set(key, float(dflt) * (1.0 + 0.05 * (j + 1)) + 0.001 * (j + 1))
    for name, rows in spec["groups"].items():
        m.select(nodes=[int(r) for r in rows]).add_to_group(name)
    return m


def apply_chain(m, chain, side=None):
    v = m
    for pos, op in enumerate(chain):
        k = op[0]
        sd = side[pos] if side and pos < len(side) else None
        if sd is not None and v is not m:
            # derive and discard another view from the SAME view object first
            try:
                if sd == "scope_global":
                    v.scope("global")
                elif sd == "scope_local":
                    v.scope("local")
                elif sd == "loc0":
                    v.loc(0.0)
                elif sd == "comp_all":
                    v.comp("all")
            except Exception:  # noqa: BLE001 - the side derivation itself is not judged
                pass
        if k in ("cell", "branch", "comp"):
            v = getattr(v, k)(idx_to_py(op[1]))
        elif k == "scope":
            v = v.scope(op[1])
        elif k == "loc":
            v = v.loc(float(op[1]))
        elif k == "select_nodes":
            v = v.select(nodes=[int(i) for i in op[1]])
        elif k == "select_edges":
            v = v.select(edges=[int(i) for i in op[1]])
        elif k in ("group", "channel", "syn"):
            v = getattr(v, op[1])
        elif k == "edge_on_type_view":
            v = v.edge(idx_to_py(op[1]))
        elif k == "edge_global":
            v = v.scope("global").edge(idx_to_py(op[1]))
        elif k == "getitem":
            idx = tuple(idx_to_py(f) for f in op[1])
            v = v[idx if len(idx) > 1 else idx[0]]
        elif k == "iter":
            it = {"cell": "cells", "branch": "branches", "comp": "comps"}[op[1]]
            v = list(getattr(v, it))[int(op[2])]
        else:
            raise ValueError(op)
    return v


def model_chain(spec):
    view = root_view(spec)
    nbase = len(view.base.rows)
    cands = None
    for op in spec["chain"]:
        k = op[0]
        if not view.nodes:
            break
        if k in ("cell", "branch", "comp"):
            view = view.at(k, idx_to_set(op[1], nbase))
        elif k == "scope":
            view = view.set_scope(op[1])
        elif k == "loc":
            cands = view.loc_candidates(float(op[1]))
            view = view.with_nodes(cands[0], "other")
        elif k == "select_nodes":
            view = view.select_nodes(list(op[1]))
        elif k == "select_edges":
            view = view.select_edges(list(op[1]))
        elif k == "group":
            view = view.group(op[1])
        elif k == "channel":
            view = view.channel(op[1])
        elif k == "syn":
            view = view.synapse_type(op[1])
        elif k == "edge_on_type_view":
            ids = idx_to_set(op[1], nbase)
            view = view.edge_global(ids) if view.scope == "global" else view.edge_local(ids)
        elif k == "edge_global":
            view = view.set_scope("global").edge_global(idx_to_set(op[1], nbase))
        elif k == "getitem":
            levels = _levels(spec["kind"])
            sub = levels[levels.index(view.level) + 1:] if view.level in levels else levels
            for lev, f in zip(sub, op[1]):
                if not view.nodes:
                    break
                view = view.at(lev, idx_to_set(f, nbase))
        elif k == "iter":
            avail = sorted(set(view.index_values(op[1]).values()))
            view = view.at(op[1], {avail[int(op[2])]})
    return view, cands


# ---------------------------------------------------------------------------------------
# judge
# ---------------------------------------------------------------------------------------


def judge(spec, tier="quick"):
    out = core.Outcome()
    res, err = core.call(build, spec)
    if err:
        out.internal_crashes.append(f"build:{err.etype}@{err.frame}")
        out.notes.append("build failed: " + err.short())
        return out
    m = res
    mview, cands = model_chain(spec)
    base = mview.base
    view, err = core.call(apply_chain, m, spec["chain"], spec.get("side"))
    out.evals += 1
    if any(spec.get("side") or []):
        out.classes.append("side derivation from an intermediate view")
    differs = any(base.rows[i][2] != li[2] or base.rows[i][1] != li[1] for i, li in root_view(spec).local_indices().items())
    if len([op for op in spec["chain"] if op[0] != "scope"]) >= 2 and differs:
        out.nontrivial_keys.append(core.h([spec["cells"], spec["edges"], spec["chain"]]))
    for op in spec["chain"]:
        out.classes.append("op:" + op[0])
        if op[0] in ("cell", "branch", "comp") and op[1] != "all":
            out.classes.append("index:" + next(iter(op[1])))
    if err:
        if not mview.nodes and err.etype == "ValueError":
            out.refusals.append("empty selection -> ValueError(Nothing in view)")
            return out
        out.violate("chain-raises", f"chain {spec['chain']} on cells={spec['cells']} raised {err.short()}; the model selects rows {mview.nodes}",
                    etype=err.etype, frame=err.frame)
        return out
    if not mview.nodes:
        out.violate("rows", f"chain {spec['chain']} denotes no compartment but returned a view with rows {list(view.nodes.index)}")
        return out
    got_rows = [int(i) for i in view.nodes.index]
    accept = [mview.nodes] if cands is None else cands
    if got_rows not in accept:
        out.violate("rows", f"chain {spec['chain']} on cells={spec['cells']}: view rows {got_rows}, model rows {accept[:3]}")
        return out
    if cands is not None:
        mview = mview.with_nodes(got_rows, "other")
    li = mview.local_indices()
    got_local = [tuple(int(x) for x in r) for r in view.nodes[["local_cell_index", "local_branch_index", "local_comp_index"]].to_numpy()]
    want_local = [li[i] for i in got_rows]
    if got_local != want_local:
        out.violate("local-indices", f"chain {spec['chain']} on cells={spec['cells']}: local indices {got_local}, model {want_local}")
    if spec["edges"]:
        got_edges = [int(i) for i in view.edges.index]
        if sorted(got_edges) != sorted(mview.edges):
            out.violate("edge-rows", f"chain {spec['chain']} with edges {spec['edges']}: view edges {got_edges}, model {sorted(mview.edges)}")
    if out.violations:
        return out
    _judge_mutation(spec, m, view, mview, out)
    return out


def _judge_mutation(spec, m, view, mview, out):
    import jax.numpy as jnp
    from jaxley.channels import HH, Km, Leak
    from vp import snap

    mut = spec["mutation"]
    op = mut["op"]
    if op == "none":
        return
    base = mview.base
    rows = list(mview.nodes)
    erows = list(mview.edges)
    N = len(base.rows)
    if op == "move":
        m.compute_xyz()
        view, _ = core.call(apply_chain, m, spec["chain"])
    s0 = snap.snapshot(m)
    expect_nodes = set()
    expect_edges = set()
    expect_other = set()
    new_cols = {}

    def has_chan(name):
        return set(base.channels.get(name, []))

    if op == "set_node":
        fn = lambda: view.set(mut["key"], float(mut["val"]))
        expect_nodes = {(r, mut["key"]) for r in rows}
        final = {(r, mut["key"]): float(mut["val"]) for r in rows}
    elif op == "set_chan":
        ch = mut["key"].split("_")[0]
        fn = lambda: view.set(mut["key"], float(mut["val"]))
        owner = has_chan(ch)
        expect_nodes = {(r, mut["key"]) for r in rows if r in owner}
        final = {(r, mut["key"]): float(mut["val"]) for r in rows if r in owner}
        if ch not in base.channels:
            expect_raise = "KeyError"
    elif op == "set_edge":
        t = mut["key"].split("_")[0]
        fn = lambda: view.set(mut["key"], float(mut["val"]))
        own = [e for e in erows if base.edges[e][2] == t]
        expect_edges = {(e, mut["key"]) for e in own}
        final = {}
    elif op == "insert":
        cls = {"Km": Km, "HH": HH, "Leak": Leak}[mut["channel"]]
        fn = lambda: view.insert(cls())
        final = {}
    elif op == "record":
        fn = lambda: view.record("v", verbose=False)
        final = {}
    elif op == "stimulate":
        fn = lambda: view.stimulate(float(mut["amp"]) * jnp.ones(int(mut["len"])), verbose=False)
        final = {}
    elif op == "clamp":
        fn = lambda: view.clamp("v", float(mut["amp"]) * jnp.ones(int(mut["len"])), verbose=False)
        final = {}
    elif op == "add_to_group":
        fn = lambda: view.add_to_group(mut["name"])
        final = {}
    elif op == "move":
        fn = lambda: view.move(*[float(x) for x in mut["xyz"]])
        final = {}
    else:
        return
    key_missing = (op == "set_chan" and mut["key"].split("_")[0] not in base.channels) or (
        op == "set_edge" and not any(e[2] == mut["key"].split("_")[0] for e in base.edges)
    )
    _, err = core.call(fn)
    out.evals += 1
    out.classes.append("mut:" + op)
    if err:
        if key_missing and err.etype == "KeyError":
            out.refusals.append(f"{op}: KeyError for a key the module does not have")
            return
        out.violate("mutation-raises", f"{op} {mut} through chain {spec['chain']} raised {err.short()}", etype=err.etype, frame=err.frame)
        return
    if key_missing:
        out.violate("mutation-accepted", f"{op} {mut}: key does not exist in the module but the call succeeded")
        return
    s1 = snap.snapshot(m)
    d = snap.diff_snapshots(s0, s1)
    problems = []

    def only(keys):
        extra = set(d) - set(keys)
        if extra:
            problems.append(f"unexpected changes in {sorted(extra)}: { {k: (sorted(d[k]['cells'])[:6] if isinstance(d[k], dict) else d[k]) for k in extra} }")

    if op in ("set_node", "set_chan"):
        only(["nodes"])
        cells = d.get("nodes", {}).get("cells", set())
        notes = d.get("nodes", {}).get("notes", [])
        val = float(mut["val"])
        want = {c for c in expect_nodes if not snap._cell_equal(s0["nodes"].loc[c[0], c[1]], val)}
        if cells != want or notes:
            problems.append(f"changed cells {sorted(cells)[:8]} != expected {sorted(want)[:8]} {notes}")
        for (r, c) in expect_nodes:
            if not snap._cell_equal(s1["nodes"].loc[r, c], val):
                problems.append(f"nodes[{r},{c}] = {s1['nodes'].loc[r, c]!r}, expected {val}")
                break
    elif op == "set_edge":
        only(["edges"])
        cells = d.get("edges", {}).get("cells", set())
        val = float(mut["val"])
        want = {c for c in expect_edges if not snap._cell_equal(s0["edges"].loc[c[0], c[1]], val)}
        if cells != want:
            problems.append(f"changed edge cells {sorted(cells)[:8]} != expected {sorted(want)[:8]}")
    elif op == "insert":
        name = mut["channel"]
        only(["nodes", "channels", "membrane_current_names"])
        nd = d.get("nodes", {"cells": set(), "notes": []})
        a0, a1 = s0["nodes"], s1["nodes"]
        obj = {"Km": Km, "HH": HH, "Leak": Leak}[name]()
        cols = [name] + list(obj.channel_params) + list(obj.channel_states)
        for c in cols:
            if c not in a1.columns:
                problems.append(f"column {c} missing after insert")
                continue
            for r in range(N):
                newv = a1.loc[r, c]
                if r in rows:
                    want = True if c == name else {**obj.channel_params, **obj.channel_states}[c]
                    if not snap._cell_equal(newv, want):
                        problems.append(f"nodes[{r},{c}] = {newv!r}, expected {want!r}")
                elif c in a0.columns:
                    if not snap._cell_equal(newv, a0.loc[r, c]):
                        problems.append(f"nodes[{r},{c}] changed outside the view: {a0.loc[r, c]!r} -> {newv!r}")
                else:
                    want_absent = (newv is False or newv == False) if c == name else (isinstance(newv, float) and np.isnan(newv))  # noqa: E712
                    if not want_absent:
                        problems.append(f"nodes[{r},{c}] = {newv!r} for a compartment outside the view")
        other = {c for c in nd["cells"] if c[1] not in cols}
        if other:
            problems.append(f"insert changed unrelated cells {sorted(other)[:6]}")
    elif op == "record":
        only(["recordings"])
        r0 = list(zip(s0["recordings"].get("rec_index", []), s0["recordings"].get("state", []))) if len(s0["recordings"]) else []
        r1 = list(zip(s1["recordings"]["rec_index"], s1["recordings"]["state"])) if len(s1["recordings"]) else []
        want = r0 + [(r, "v") for r in rows if (r, "v") not in r0]
        if [(int(a), b) for a, b in r1] != [(int(a), b) for a, b in want]:
            problems.append(f"recordings {r1} != expected {want}")
    elif op in ("stimulate", "clamp"):
        key = "i" if op == "stimulate" else "v"
        only(["externals", "external_inds"])
        inds = [int(i) for i in s1["external_inds"].get(key, [])]
        if inds != rows:
            problems.append(f"external_inds[{key}] = {inds}, expected {rows}")
        ext = np.asarray(s1["externals"].get(key, np.zeros((0, 0))))
        if ext.shape != (len(rows), int(mut["len"])) or not np.all(ext == float(mut["amp"])):
            problems.append(f"externals[{key}] has shape {ext.shape}, expected {(len(rows), int(mut['len']))} filled with {mut['amp']}")
    elif op == "add_to_group":
        only(["groups"])
        g1 = sorted(int(i) for i in s1["groups"].get(mut["name"], []))
        want = sorted(set(rows) | set(base.groups.get(mut["name"], [])))
        if g1 != want:
            problems.append(f"group {mut['name']} = {g1}, expected {want}")
        for k in s0["groups"]:
            if k != mut["name"] and not snap.arr_equal(s0["groups"][k], s1["groups"][k]):
                problems.append(f"group {k} changed")
    elif op == "move":
        only(["xyzr"])
        brs = sorted({base.rows[i][1] for i in rows})
        changed = d.get("xyzr", [])
        shift = np.asarray(mut["xyz"], float)
        want_changed = brs if np.any(shift != 0) else []
        if sorted(changed) != want_changed and not (isinstance(changed, list) and set(changed) <= set(brs)):
            problems.append(f"move changed xyzr of branches {changed}, expected {brs}")
        for b in brs:
            if not np.allclose(s1["xyzr"][b][:, :3], s0["xyzr"][b][:, :3] + shift, rtol=0, atol=1e-9, equal_nan=True):
                problems.append(f"xyzr of branch {b} not shifted by {shift.tolist()}")
                break
    if problems:
        out.violate(f"footprint:{op}", f"{op} {mut} through chain {spec['chain']} (view rows {rows}): " + "; ".join(problems[:3]))


PREDICATES = {}
