"""spec -> jaxley objects, through the public API only."""
from __future__ import annotations

import numpy as np


def build_cell(cell):
    import jaxley as jx

    comp = jx.Compartment()
    branches = [jx.Branch([comp] * int(n)) for n in cell["ncomp"]]
    return jx.Cell(branches, parents=[int(p) for p in cell["parents"]])


def build_module(spec, set_params=True):
    """Build the module described by a morphology spec and set its per-compartment
    parameters with `.set()`."""
    import jaxley as jx

    kind = spec["kind"]
    if kind == "compartment":
        m = jx.Compartment()
    elif kind == "branch":
        m = jx.Branch([jx.Compartment()] * int(spec["cells"][0]["ncomp"][0]))
    elif kind == "cell":
        m = build_cell(spec["cells"][0])
    elif kind == "network":
        m = jx.Network([build_cell(c) for c in spec["cells"]])
    else:
        raise ValueError(kind)
    if set_params:
        for key in ("radius", "length", "axial_resistivity", "capacitance", "v"):
            if key in spec:
                vals = np.asarray(spec[key], dtype=float)
                m.set(key, vals if len(vals) > 1 else float(vals[0]))
    return m


def insert_leak(m, leak):
    """leak: {"rows": [comp indices], "g": [...], "e": [...]} (rows sorted)."""
    from jaxley.channels import Leak

    rows = [int(r) for r in leak["rows"]]
    if not rows:
        return
    view = m.select(nodes=rows) if len(m.nodes) > 1 else m
    view.insert(Leak())
    view = m.select(nodes=rows) if len(m.nodes) > 1 else m
    view.set("Leak_gLeak", np.asarray(leak["g"], float) if len(rows) > 1 else float(leak["g"][0]))
    view.set("Leak_eLeak", np.asarray(leak["e"], float) if len(rows) > 1 else float(leak["e"][0]))
