"""Writes /verif/MANIFEST.json from the check modules that exist (python -m vp.manifest)."""
import importlib
import json
import os

from vp.core import VERIF_DIR

ALL = [f"C{i:02d}" for i in range(1, 21)]
PY = "/venv/bin/python"


def main():
    checks, na = [], []
    for cid in ALL:
        path = os.path.join(VERIF_DIR, "vp", "checks", cid.lower() + ".py")
        if not os.path.exists(path):
            na.append({"property_id": cid, "reason": "check not built yet (planned, see DESIGN.md section 5); not a claim that the technique cannot apply"})
            continue
        m = importlib.import_module(f"vp.checks.{cid.lower()}")
        checks.append({
            "property_id": cid,
            "quick_cmd": f"cd /verif && {PY} -m vp.run {cid} --tier quick",
            "thorough_cmd": f"cd /verif && {PY} -m vp.run {cid} --tier thorough",
            "evidence_file": f"/verif/evidence/{cid}.json",
            "replay_cmd_template": f"cd /verif && {PY} -m vp.run {cid} --replay {{path}}",
            "engine": "hypothesis-runner",
            "level_claimed": {
                "category": "exploration",
                "text": m.LEVEL_TEXT,
                "design_ref": f"DESIGN.md section 5/{cid}",
            },
            "level_note": "; ".join(m.ASSUMPTIONS),
            "technique": m.TECHNIQUE,
        })
    man = {
        "version": 1,
        "setup_cmd": "cd /verif && sh setup.sh",
        "hooks": {
            "guard": "JAXLEY_VERIF",
            "enable": "no hooks: every observation is made through jaxley's public API; checks import /repo's working tree directly (sys.path), nothing to build",
            "baseline_off_cmd": "cd /repo && /venv/bin/python -m pytest -ra -q -p no:cacheprovider --timeout=900 --continue-on-collection-errors",
            "source_commits": [],
            "add_only": True,
        },
        "engines": [
            {"name": "hypothesis-runner", "path": "/verif/vp/run.py",
             "serves_properties": [c["property_id"] for c in checks],
             "kind_free_text": "Hypothesis 6.168 strategies sharded over 16 seeded worker processes; explicit oracles (NumPy reference models, differential, metamorphic, round-trip, history invariants); shrunk JSON replay files"},
            {"name": "atheris-swc", "path": "/verif/vp/fuzz/swc_atheris.py", "serves_properties": ["C16"],
             "kind_free_text": "atheris 3.1 / libFuzzer coverage-guided fuzzing of the SWC reader; bytes are decoded into specs by the C16 Hypothesis strategy (fuzz_one_input), the C16 section-model oracle runs inside the target; started by vp.run C16 as parallel subprocesses"},
        ],
        "checks": checks,
        "not_applicable": na,
        "notes": "All checks: exit 0 held / exit 1 + VIOLATION line / exit 2 harness error. Open known findings in /verif/KNOWN_FINDINGS.txt are printed as KNOWN-FINDING lines. VERIF_SEED seeds every Hypothesis worker; VERIF_TIER overrides --tier; VERIF_REPO (default /repo) points the checks at another tree for mutation self-tests.",
    }
    with open(os.path.join(VERIF_DIR, "MANIFEST.json"), "w") as fh:
        json.dump(man, fh, indent=1)
    import jsonschema
    jsonschema.validate(man, json.load(open("/root/.vp/MANIFEST.schema.json")))
    print("MANIFEST.json written:", [c["property_id"] for c in checks])


if __name__ == "__main__":
    main()
