"""C06 - results do not depend on how the simulation is executed; integrate is pure."""
from __future__ import annotations

import numpy as np
from hypothesis import strategies as st

from vp.gen.morph import fl
from vp import core
from vp.gen import morph as gm
from vp.gen import net as gn

ID = "C06"
RULE = (
    "Hypothesis draws a model (cell or network, channels, 0-4 synapses), 1-2 stimuli of T=4..12 samples, recordings of "
    "voltages and gate states, a (solver, backend) pair and execution variants: a repeated call, jit, 1-2 "
    "checkpoint_lengths factorisations of depth 1-3 whose product equals or exceeds T, and one batched quantity (data_set "
    "value / data_stimulate amplitude / trainable parameter, batch size 2-4) run sequentially, under vmap and under "
    "jit(vmap). Oracle: every variant equals the plain eager sequential un-checkpointed call (1e-9 mV; repeated call "
    "bit-identical) and a deep snapshot of .nodes/.edges/.externals/.external_inds/.recordings/.trainable_params/"
    ".indices_set_by_trainables/.groups is unchanged by integrate. One evaluation per variant. Non-trivial: batch "
    "entries and their outputs differ, or checkpoint depth >=2, or product > T; distinct = hash(structure, variant, layout)."
)
ASSUMPTIONS = [
    "float64, CPU; tolerance 1e-9*max(1,|v|) between execution routes (XLA may fuse differently under jit/vmap), repeated eager call bit-identical",
    "a backend refusing the model is a counted refusal and the case is run with jax.sparse",
    "jax.sparse under vmap raises NotImplementedError inside JAX (no batching rule for spsolve): counted as a refusal",
]
TECHNIQUE = "property-based testing (Hypothesis): differential across execution modes (eager/jit/vmap/checkpointing) + purity snapshot invariant"
LEVEL_TEXT = (
    "Generated models and execution configurations; jit, vmap, jit(vmap) and nested checkpoint layouts (product = or > steps) are "
    "compared with the plain eager run, repeated calls must be bit-identical and must leave every public table untouched."
)


def budget(tier):
    return 4 if tier == "quick" else 80


def wall_guard(tier):
    return 1500 if tier == "quick" else 7200


@st.composite
def _layout(draw, T):
    depth = draw(st.integers(1, 3))
    if depth == 1:
        return [T + draw(st.sampled_from([0, 0, 1, 3]))]
    fac = [draw(st.integers(1, 4)) for _ in range(depth - 1)]
    p = int(np.prod(fac))
    last = -(-T // p) + draw(st.sampled_from([0, 0, 1]))
    lay = fac + [max(1, last)]
    draw(st.randoms(use_true_random=False)).shuffle(lay)
    return lay


@st.composite
def _spec(draw, tier):
    kind = draw(st.sampled_from(["cell", "cell", "network"]))
    morph = draw(gm.morphology(tier, kinds=(kind,), max_branches=4, max_ncomp=3, max_cells=3, ranges=gm.RANGES_DYN))
    N = gm.n_compartments(morph["cells"])
    morph["v"] = [draw(fl(-75.0, -50.0)) for _ in range(N)]
    chans = draw(gn.channel_placement(N, mechs=("HH", "HH", "Leak", "Na", "K", "Km", "CaL", "CaT"), max_ch=2, allow_rename=False))
    edges = draw(gn.edge_list(N, max_edges=4, min_edges=0)) if kind == "network" and N >= 2 else []
    T = draw(st.integers(4, 12))
    stim = draw(gn.stimuli(N, T, max_stim=2, min_stim=1))
    layouts = [draw(_layout(T)) for _ in range(draw(st.integers(1, 2)))]
    bkind = draw(st.sampled_from(["data_set", "data_stimulate", "trainable"]))
    batch = {"kind": bkind, "n": draw(st.integers(2, 4)), "rows": sorted(draw(st.sets(st.integers(0, N - 1), min_size=1, max_size=3)))}
    if bkind in ("data_set", "trainable"):
        batch["key"] = draw(st.sampled_from(["radius", "length", "capacitance", "v"]))
        lo, hi = {"radius": (0.5, 5.0), "length": (5.0, 50.0), "capacitance": (0.5, 2.0), "v": (-80.0, -50.0)}[batch["key"]]
        batch["vals"] = [draw(fl(lo, hi)) for _ in range(batch["n"])]
    else:
        batch["vals"] = [draw(fl(-0.5, 1.5)) for _ in range(batch["n"])]
    return {"morph": morph, "channels": chans, "edges": edges, "stim": stim, "nsteps": T, "layouts": layouts, "batch": batch,
            "dt": draw(st.sampled_from([0.025, 0.05])), "solver": draw(st.sampled_from(["bwd_euler", "bwd_euler", "crank_nicolson"])),
            "backend": draw(st.sampled_from(gn.BACKENDS)), "rec_gates": draw(st.booleans())}


def strategy(tier):
    return _spec(tier)


def size(spec):
    return (gm.n_compartments(spec["morph"]["cells"]), len(spec["edges"]), spec["nsteps"], core.spec_size(spec))


def add_recordings(m, spec):
    m.record("v", verbose=False)
    # synaptic states and currents of every type (their rows are indexed by synapse, not by compartment)
    from vp.ref import mech as R2_
    for t in sorted({e["type"] for e in spec["edges"]}):
        ids = [i for i, e in enumerate(spec["edges"]) if e["type"] == t]
        for g in R2_.SYNAPSES[t]["states"]:
            m.select(edges=ids).record(f"{t}_{g}", verbose=False)
        m.select(edges=ids[-1:]).record(f"i_{t}", verbose=False)
    if spec.get("rec_gates"):
        for c in spec["channels"]:
            from vp.ref import mech as R2
            for g in list(R2.CHANNELS[c["mech"]]["states"])[:1]:
                gn.view_of(m, c["rows"]).record(f"{c['name'] or c['mech']}_{g}", verbose=False)


def judge(spec, tier="quick"):
    import jax
    import jax.numpy as jnp
    import jaxley as jx
    from vp import snap

    out = core.Outcome()
    T = int(spec["nsteps"])
    kw = dict(delta_t=float(spec["dt"]), solver=spec["solver"], voltage_solver=spec["backend"])

    def build():
        m = gn.build_model(spec)
        add_recordings(m, spec)
        return m

    m, err = core.call(build)
    if err:
        out.internal_crashes.append(f"build:{err.etype}@{err.frame}")
        out.notes.append(err.short()[:100])
        return out
    s0 = snap.snapshot(m)
    base, err = core.call(lambda: np.asarray(jx.integrate(m, **kw), float))
    if err and spec["backend"] != "jax.sparse" and "solver_utils" in err.frame:
        out.refusals.append(f"{spec['backend']}:{err.etype}@{err.frame}")
        kw["voltage_solver"] = "jax.sparse"
        base, err = core.call(lambda: np.asarray(jx.integrate(m, **kw), float))
    if err:
        out.violate("raises", f"plain integrate raised {err.short()}", etype=err.etype, frame=err.frame)
        return out
    if not np.isfinite(base[: len(m.nodes)]).all() or np.max(np.abs(base[: len(m.nodes)])) > 300:
        out.filtered += 1
        return out
    sc = max(1.0, float(np.max(np.abs(base))))
    skey = core.h([spec["morph"]["cells"], [(e["pre"], e["post"], e["type"]) for e in spec["edges"]], spec["solver"], kw["voltage_solver"]])
    # purity
    out.evals += 1
    d = snap.diff_snapshots(s0, snap.snapshot(m))
    if d:
        out.violate("purity", f"integrate changed the module: {sorted(d)}")
        return out
    # repeated call
    again, err = core.call(lambda: np.asarray(jx.integrate(m, **kw), float))
    out.evals += 1
    if err or not np.array_equal(again, base):
        out.violate("repeat", f"a second integrate call is not bit-identical: {err.short() if err else np.max(np.abs(again - base))}")
        return out
    d = snap.diff_snapshots(s0, snap.snapshot(m))
    if d:
        out.violate("purity", f"the second integrate call changed the module: {sorted(d)}")
        return out
    # jit
    got, err = core.call(lambda: np.asarray(jax.jit(lambda: jx.integrate(m, **kw))(), float))
    out.evals += 1
    if err:
        out.violate("raises:jit", f"jit(integrate) raised {err.short()}", etype=err.etype, frame=err.frame)
        return out
    if got.shape != base.shape or not np.allclose(got, base, rtol=0, atol=1e-9 * sc):
        out.violate("jit", f"jit(integrate) differs from eager by {np.max(np.abs(got - base)) if got.shape == base.shape else got.shape}")
        return out
    # checkpointing
    for lay in spec["layouts"]:
        got, err = core.call(lambda: np.asarray(jx.integrate(m, checkpoint_lengths=[int(x) for x in lay], **kw), float))
        out.evals += 1
        prod = int(np.prod(lay))
        out.classes.append(f"ckpt depth {len(lay)}" + (" prod>T" if prod > T else ""))
        if len(lay) >= 2 or prod > T:
            out.nontrivial_keys.append(f"{skey}|ckpt|{lay}|{T}")
        if err:
            out.violate("raises:checkpoint", f"checkpoint_lengths={lay} (T={T}) raised {err.short()}", etype=err.etype, frame=err.frame)
            return out
        if got.shape != base.shape or not np.allclose(got, base, rtol=0, atol=1e-9 * sc):
            out.violate("checkpoint", f"checkpoint_lengths={lay} with T={T}: differs from the plain run by "
                        f"{np.max(np.abs(got - base)) if got.shape == base.shape else (got.shape, base.shape)}")
            return out
    # batched quantity
    b = spec["batch"]
    N = len(m.nodes)
    vals = jnp.asarray(np.asarray(b["vals"], float))
    if b["kind"] == "data_set":
        view = gn.view_of(m, b["rows"])

        def sim(val):
            ps = view.data_set(b["key"], val, None)
            return jx.integrate(m, param_state=ps, **kw)
    elif b["kind"] == "data_stimulate":
        view = gn.view_of(m, b["rows"][:1])

        def sim(val):
            ds = view.data_stimulate(val * jnp.ones(T), None)
            return jx.integrate(m, data_stimuli=ds, **kw)
    else:
        m = build()
        gn.view_of(m, b["rows"]).make_trainable(b["key"], verbose=False)
        s0 = snap.snapshot(m)

        def sim(val):
            p = [{b["key"]: jnp.atleast_1d(val)}]
            return jx.integrate(m, params=p, **kw)

        if b["key"] != "v" and len(m.get_parameters()[0][b["key"]]) != 1:
            out.notes.append("unexpected trainable shape")
            return out
    seq, err = core.call(lambda: np.stack([np.asarray(sim(v), float) for v in vals]))
    if err:
        out.violate("raises:batch", f"sequential {b['kind']} runs raised {err.short()}", etype=err.etype, frame=err.frame)
        return out
    if not np.isfinite(seq).all():
        out.filtered += 1
        return out
    scb = max(1.0, float(np.max(np.abs(seq))))
    differ = len(set(b["vals"])) > 1 and float(np.max(np.abs(seq[0] - seq[-1]))) > 1e-6
    for name, f in (("vmap", jax.vmap(sim)), ("jit(vmap)", jax.jit(jax.vmap(sim)))):
        got, err = core.call(lambda: np.asarray(f(vals), float))
        out.evals += 1
        out.classes.append(f"{name}:{b['kind']}")
        if differ:
            out.nontrivial_keys.append(f"{skey}|{name}|{b['kind']}|{b.get('key')}|{b['n']}")
        if err:
            if err.etype == "NotImplementedError" and "spsolve" in err.msg and kw["voltage_solver"] == "jax.sparse":
                # JAX has no batching rule for its sparse solve: the backend refuses vmap (no wrong result)
                out.refusals.append(f"{name}: jax.sparse cannot be vmapped (JAX: no batching rule for spsolve)")
                break
            out.violate(f"raises:{name}", f"{name} over {b['kind']} raised {err.short()}", etype=err.etype, frame=err.frame)
            return out
        if got.shape != seq.shape or not np.allclose(got, seq, rtol=0, atol=1e-9 * scb):
            out.violate(f"{name}:{b['kind']}", f"{name} over {b['kind']}({b.get('key')}) differs from sequential runs by "
                        f"{np.max(np.abs(got - seq)) if got.shape == seq.shape else (got.shape, seq.shape)}")
            return out
    out.evals += 1
    d = snap.diff_snapshots(s0, snap.snapshot(m))
    if d:
        out.violate("purity", f"batched integrate calls changed the module: {sorted(d)}")
    return out


PREDICATES = {}
