"""C17 - parameter transforms are bounded, monotone bijections; ParamTransform is entry-wise."""
from __future__ import annotations

import numpy as np
from hypothesis import strategies as st

from vp import core

ID = "C17"
EPS = float(np.finfo(float).eps)
RULE = (
    "Hypothesis draws a transform tree (sigmoid / softplus / negative softplus / affine / custom, chains of depth "
    "<=3, masks) with bounds lower<upper over +-1e4 and widths down to 1e-6, and up to 32 inputs x from "
    "floats(-1e6,1e6) mixed with a saturation-directed strategy (+-20, +-36.7, +-709 and their ulp neighbours, 0, "
    "+-1e6); half of the cases wrap 1-3 such transforms into a ParamTransform over a get_parameters()-shaped pytree "
    "and compare eager, jit and entry-wise application. One oracle evaluation per (transform, input, clause). "
    "Non-trivial: |x|>=20 (saturated regime of a clipped exponential) or a chain/mask or a width<1e-3; "
    "distinct = hash(transform tree, x)."
)
ASSUMPTIONS = [
    "float64, CPU",
    "bounds are checked with a slack of 4 eps * max(|lower|,|upper|,width) for the rounding of lower + width*s",
    "x-side round trip inverse(forward(x))=x is judged against the conditioning bound 1e3*eps*(|y|+|bound|)/|f'(x)| + 1e3*eps*|x| "
    "(exact derivative from scipy.special.expit) and skipped where forward(x) rounds onto a bound; only for un-chained transforms",
    "y-side round trip forward(inverse(y))=y to 1e-9 relative to max(|y|,|bounds|,1) wherever inverse(y) is finite",
    "documented image of NegSoftplusTransform(upper) is (-inf, upper] (its docstring)",
    "eager / jit / entry-wise routes are 'identical' up to re-association: 1e-9 relative + 1e-12*(1+max|input|); an ill-conditioned "
    "ParamTransform.inverse entry is accepted if it is a valid pre-image (own forward returns y to 1e-9)",
    "bounds and shifts are drawn without subnormals (XLA flushes denormals to zero)",
    "strict monotonicity is only demanded where exact values differ by >1e-9 relative and by >1e-290 (XLA flushes denormals)",
    "the property's 'proved by interval analysis' is outside this technique family: decided by search only",
]
TECHNIQUE = "property-based testing (Hypothesis): round-trip, bound and monotonicity oracles with saturation-directed inputs; differential eager/jit/entry-wise for ParamTransform"
LEVEL_TEXT = (
    "Generated transform trees, bounds and inputs including the saturation points of the clipped exponential; bounds, "
    "monotonicity and both round trips are checked per point, ParamTransform against entry-wise application under jit. "
    "Search only - the interval-analysis proof mentioned in the property is not attempted."
)


def budget(tier):
    return 200 if tier == "quick" else 2500


# ------------------------------------------------------------------------------------
# strategies
# ------------------------------------------------------------------------------------


def _ulps(x, k):
    y = np.float64(x)
    for _ in range(abs(k)):
        y = np.nextafter(y, np.inf if k > 0 else -np.inf)
    return float(y)


SAT = st.tuples(
    st.sampled_from([20.0, -20.0, 36.7, -36.7, 709.0, -709.0, 0.0, 1e6, -1e6, 50.0, -50.0, 745.0, -745.0]),
    st.integers(-3, 3),
).map(lambda t: float(np.clip(_ulps(t[0], t[1]), -1e6, 1e6)))
X = st.one_of(st.floats(-1e6, 1e6), SAT, st.floats(-40.0, 40.0))


@st.composite
def _bounds(draw):
    lower = draw(st.one_of(st.sampled_from([0.0, -1.0, 1.0]), st.floats(-1e4, 1e4, allow_subnormal=False)))
    width = draw(st.one_of(st.sampled_from([1.0, 2.0]), st.floats(-6.0, 4.0).map(lambda e: 10.0**e)))
    upper = min(lower + width, 1.0001e4)
    if not upper > lower:
        upper = float(np.nextafter(lower, np.inf))
    return float(lower), float(upper)


@st.composite
def _leaf(draw):
    kind = draw(st.sampled_from(["sigmoid", "softplus", "negsoftplus", "affine", "custom"]))
    if kind == "sigmoid":
        lo, up = draw(_bounds())
        return {"t": kind, "lower": lo, "upper": up}
    if kind == "softplus":
        return {"t": kind, "lower": draw(st.one_of(st.sampled_from([0.0, 1.0, -2.0]), st.floats(-1e4, 1e4, allow_subnormal=False)))}
    if kind == "negsoftplus":
        return {"t": kind, "upper": draw(st.one_of(st.sampled_from([0.0, 2.0, -2.0]), st.floats(-1e4, 1e4, allow_subnormal=False)))}
    if kind == "affine":
        sc = draw(st.one_of(st.sampled_from([1.0, 2.0, -1.0, 0.5]), st.floats(0.01, 100.0), st.floats(-100.0, -0.01)))
        return {"t": kind, "scale": sc, "shift": draw(st.floats(-100.0, 100.0, allow_subnormal=False))}
    return {"t": "custom", "which": draw(st.sampled_from(["affine3", "cube"]))}


@st.composite
def _tree(draw, n):
    shape = draw(st.sampled_from(["leaf", "leaf", "chain", "masked"]))
    if shape == "leaf":
        return draw(_leaf())
    if shape == "chain":
        k = draw(st.integers(1, 3))
        return {"t": "chain", "ts": [draw(_leaf()) for _ in range(k)]}
    return {"t": "masked", "mask": [draw(st.booleans()) for _ in range(n)], "inner": draw(_leaf())}


@st.composite
def _spec(draw, tier):
    if draw(st.booleans()):
        n = draw(st.integers(1, 32))
        return {"kind": "single", "tree": draw(_tree(n)), "xs": [draw(X) for _ in range(n)],
                "ys": [draw(st.floats(0.0, 1.0)) for _ in range(n)]}
    k = draw(st.integers(1, 3))
    entries = []
    for i in range(k):
        n = draw(st.integers(1, 6))
        entries.append({"key": draw(st.sampled_from(["radius", "HH_gNa", "length", "IonotropicSynapse_gS", "v"])),
                        "tree": draw(_tree(n)), "xs": [draw(X) for _ in range(n)]})
    return {"kind": "param", "entries": entries}


def strategy(tier):
    return _spec(tier)


# ------------------------------------------------------------------------------------
# building and reference
# ------------------------------------------------------------------------------------


def make(node):
    import jax.numpy as jnp
    from jaxley.optimize import transforms as T

    t = node["t"]
    if t == "sigmoid":
        return T.SigmoidTransform(node["lower"], node["upper"])
    if t == "softplus":
        return T.SoftplusTransform(node["lower"])
    if t == "negsoftplus":
        return T.NegSoftplusTransform(node["upper"])
    if t == "affine":
        return T.AffineTransform(node["scale"], node["shift"])
    if t == "custom":
        if node["which"] == "affine3":
            return T.CustomTransform(lambda x: 3.0 * x - 1.0, lambda y: (y + 1.0) / 3.0)
        return T.CustomTransform(lambda x: x**3, lambda y: jnp.cbrt(y))
    if t == "chain":
        return T.ChainTransform([make(c) for c in node["ts"]])
    if t == "masked":
        return T.MaskedTransform(jnp.asarray(node["mask"]), make(node["inner"]))
    raise ValueError(t)


def interval(node, lo=-np.inf, hi=np.inf):
    """Declared image interval of a transform applied to inputs in [lo, hi]."""
    t = node["t"]
    if t == "sigmoid":
        return node["lower"], node["upper"]
    if t == "softplus":
        return node["lower"], np.inf
    if t == "negsoftplus":
        return -np.inf, node["upper"]
    if t == "affine":
        a, b = node["scale"], node["shift"]
        ends = sorted([a * lo + b if np.isfinite(lo) else (-np.inf if a > 0 else np.inf),
                       a * hi + b if np.isfinite(hi) else (np.inf if a > 0 else -np.inf)])
        return ends[0], ends[1]
    if t == "custom":
        if node["which"] == "affine3":
            return 3.0 * lo - 1.0, 3.0 * hi - 1.0
        return (lo**3 if np.isfinite(lo) else lo), (hi**3 if np.isfinite(hi) else hi)
    if t == "chain":
        for c in node["ts"]:
            lo, hi = interval(c, lo, hi)
        return lo, hi
    raise ValueError(t)


def image(node, lo=-np.inf, hi=np.inf):
    """Image of [lo, hi] under the documented function (tighter than the declared bounds
    for chains such as sigmoid o sigmoid); used to draw y for the y-side round trip."""
    t = node["t"]
    if t == "chain":
        for c in node["ts"]:
            lo, hi = image(c, lo, hi)
        return lo, hi
    if t in ("sigmoid", "softplus", "negsoftplus"):
        a, b = interval(node)
        vals = []
        for e, lim in ((lo, a), (hi, b)):
            vals.append(float(ref_forward(node, e)) if np.isfinite(e) else lim)
        return min(vals), max(vals)
    return interval(node, lo, hi)


def direction(node):
    t = node["t"]
    if t == "affine":
        return 1 if node["scale"] > 0 else -1
    if t == "chain":
        d = 1
        for c in node["ts"]:
            d *= direction(c)
        return d
    return 1


def ref_forward(node, x):
    """Accurate float64 evaluation of the documented function (used only to decide where
    strict monotonicity / the conditioning bound apply)."""
    from scipy.special import expit

    t = node["t"]
    x = np.asarray(x, float)
    if t == "sigmoid":
        return node["lower"] + (node["upper"] - node["lower"]) * expit(x)
    if t == "softplus":
        return np.logaddexp(x, 0.0) + node["lower"]
    if t == "negsoftplus":
        return node["upper"] - np.logaddexp(-x, 0.0)
    if t == "affine":
        return node["scale"] * x + node["shift"]
    if t == "custom":
        return 3.0 * x - 1.0 if node["which"] == "affine3" else x**3
    if t == "chain":
        for c in node["ts"]:
            x = ref_forward(c, x)
        return x
    raise ValueError(t)


def ref_deriv(node, x):
    from scipy.special import expit

    t = node["t"]
    x = np.asarray(x, float)
    if t == "sigmoid":
        return (node["upper"] - node["lower"]) * expit(x) * expit(-x)
    if t == "softplus":
        return expit(x)
    if t == "negsoftplus":
        return expit(-x)
    if t == "affine":
        return np.full_like(x, abs(node["scale"]))
    if t == "custom":
        return np.full_like(x, 3.0) if node["which"] == "affine3" else 3.0 * x**2
    raise ValueError(t)


def _bound_scale(node):
    lo, hi = interval(node)
    s = [abs(v) for v in (lo, hi) if np.isfinite(v)]
    if np.isfinite(lo) and np.isfinite(hi):
        s.append(hi - lo)
    return max(s + [1e-300])


# ------------------------------------------------------------------------------------
# oracle
# ------------------------------------------------------------------------------------


def _check_single(out, node, xs, ys01, label, jit=True):
    import jax
    import jax.numpy as jnp

    xs = np.asarray(xs, float)
    n = len(xs)
    tf, err = core.call(make, node)
    if err:
        out.violate("raises", f"constructing {node} raised {err.short()}", etype=err.etype, frame=err.frame)
        return None
    res, err = core.call(lambda: np.asarray(tf.forward(jnp.asarray(xs)), dtype=float))
    if err:
        out.violate("raises", f"{label}.forward raised {err.short()}", etype=err.etype, frame=err.frame)
        return None
    y = res
    inner = node["inner"] if node["t"] == "masked" else node
    mask = np.asarray(node["mask"], bool) if node["t"] == "masked" else np.ones(n, bool)
    nontriv_tree = node["t"] in ("chain", "masked")
    lo, hi = interval(inner)
    if np.isfinite(lo) and np.isfinite(hi) and hi - lo < 1e-3:
        nontriv_tree = True
    for i in range(n):
        if nontriv_tree or abs(xs[i]) >= 20:
            out.nontrivial_keys.append(core.h([node, xs[i]]))
    # unmasked entries are the identity
    if (~mask).any():
        out.evals += int((~mask).sum())
        if not np.array_equal(y[~mask], xs[~mask]):
            out.violate("mask-identity", f"{label}: unmasked entries changed: x={xs[~mask].tolist()} -> {y[~mask].tolist()}")
    xm, ym = xs[mask], y[mask]
    if len(xm) == 0:
        return y
    # (1) finite and inside the declared bounds
    out.evals += len(xm)
    if not np.isfinite(ym).all():
        i = int(np.argmax(~np.isfinite(ym)))
        out.violate("finite", f"{label}: forward({xm[i]!r}) = {ym[i]!r}")
        return y
    slack = 4 * EPS * _bound_scale(inner) + 1e-290
    bad = (ym < lo - slack) | (ym > hi + slack)
    if bad.any():
        i = int(np.argmax(bad))
        out.violate("bounds", f"{label}: forward({xm[i]!r}) = {ym[i]!r} outside declared [{lo!r}, {hi!r}]", x=float(xm[i]))
    # (2) monotone
    order = np.argsort(xm, kind="stable")
    xs_s, ys_s = xm[order], ym[order]
    d = direction(inner)
    dy = np.diff(ys_s) * d
    out.evals += max(0, len(xm) - 1)
    tol_m = 4 * EPS * np.maximum(np.abs(ys_s[1:]), np.abs(ys_s[:-1]))
    if (dy < -tol_m).any():
        i = int(np.argmax(dy < -tol_m))
        out.violate("monotone", f"{label}: x1={xs_s[i]!r} < x2={xs_s[i+1]!r} but f(x1)={ys_s[i]!r}, f(x2)={ys_s[i+1]!r} (direction {d})")
    rf = ref_forward(inner, xs_s)
    with np.errstate(invalid="ignore"):
        gap = np.diff(rf) * d
        # strictness is only demanded where the exact values differ by far more than
        # rounding and far above the underflow range (XLA flushes denormals to zero)
        strict = (gap > 1e-9 * np.maximum(np.maximum(np.abs(rf[1:]), np.abs(rf[:-1])), _bound_scale(inner))) & (gap > 1e-290)
    if (strict & (dy <= 0)).any():
        i = int(np.argmax(strict & (dy <= 0)))
        out.violate("monotone-strict", f"{label}: exact values differ by {gap[i]:.3e} but f({xs_s[i]!r})={ys_s[i]!r}, f({xs_s[i+1]!r})={ys_s[i+1]!r}")
    # (3) x-side round trip for un-chained transforms
    if inner["t"] != "chain":
        back, err = core.call(lambda: np.asarray(tf.inverse(jnp.asarray(y)), dtype=float))
        if err:
            out.violate("raises", f"{label}.inverse raised {err.short()}", etype=err.etype, frame=err.frame)
        else:
            bm = back[mask]
            on_bound = (ym <= lo) | (ym >= hi)
            with np.errstate(divide="ignore", invalid="ignore", over="ignore"):
                fprime = np.abs(ref_deriv(inner, xm))
                bscale = sum(abs(v) for v in (lo, hi) if np.isfinite(v))
                cond = 1e3 * EPS * (np.abs(ym) + bscale) / fprime + 1e3 * EPS * np.abs(xm) + 1e-12
            judged = ~on_bound & np.isfinite(cond) & (cond < 1e-3 * np.maximum(1.0, np.abs(xm)))
            out.evals += int(judged.sum())
            out.inconclusive += int((~judged).sum())
            with np.errstate(invalid="ignore"):
                wrong = judged & ~(np.abs(bm - xm) <= cond)
            if wrong.any():
                i = int(np.argmax(wrong))
                out.violate("roundtrip-x", f"{label}: inverse(forward({xm[i]!r})) = {bm[i]!r} (forward={ym[i]!r}, allowed error {cond[i]:.2e})", x=float(xm[i]))
            if (~mask).any() and not np.array_equal(back[~mask], xs[~mask]):
                out.violate("mask-identity", f"{label}: inverse changed unmasked entries")
    # (4) y-side round trip: y drawn inside the declared open interval
    if ys01 is not None:
        u = np.asarray(ys01, float)[: len(xm)]
        lo_d, hi_d = lo, hi
        lo, hi = image(inner)
        if np.isfinite(lo) and np.isfinite(hi):
            yy = lo + (hi - lo) * u
        elif np.isfinite(lo):
            yy = lo + np.abs(xm[: len(u)]) * u + u
        elif np.isfinite(hi):
            yy = hi - np.abs(xm[: len(u)]) * u - u
        else:
            yy = xm[: len(u)]
        # stay clear of the image boundary by 1e-6 of its scale: the boundary itself is
        # computed in floating point and chains amplify that rounding
        fl = [abs(v) for v in (lo, hi) if np.isfinite(v)]
        margin = 1e-6 * max(fl + [hi - lo if np.isfinite(hi - lo) else 0.0, 1e-300])
        inside = (yy > lo + margin) & (yy < hi - margin)
        yfull = np.where(mask, 0.0, 0.0).astype(float)
        yfull = np.array(xs, float)
        idx = np.flatnonzero(mask)[: len(yy)]
        yfull[idx] = yy
        res, err = core.call(lambda: (np.asarray(tf.inverse(jnp.asarray(yfull)), dtype=float)))
        if err:
            out.violate("raises", f"{label}.inverse raised {err.short()}", etype=err.etype, frame=err.frame)
        else:
            xinv = res
            res2, err = core.call(lambda: np.asarray(tf.forward(jnp.asarray(np.where(np.isfinite(xinv), xinv, 0.0))), dtype=float))
            if not err:
                fin = np.isfinite(xinv[idx]) & inside
                yb = res2[idx]
                scale = np.maximum(np.abs(yy), max(1.0, sum(abs(v) for v in (lo, hi) if np.isfinite(v))))
                out.evals += int(fin.sum())
                wrong = fin & ~(np.abs(yb - yy) <= 1e-9 * scale)
                if wrong.any():
                    i = int(np.argmax(wrong))
                    out.violate("roundtrip-y", f"{label}: forward(inverse({yy[i]!r})) = {yb[i]!r} (inverse = {xinv[idx][i]!r})", y=float(yy[i]))
                nanin = inside & np.isnan(xinv[idx])
                if nanin.any():
                    i = int(np.argmax(nanin))
                    out.violate("not-onto", f"{label}: inverse({yy[i]!r}) is NaN although y lies inside the declared image ({lo!r}, {hi!r})", y=float(yy[i]))
    # (5) jit agrees with eager
    if jit:
        res, err = core.call(lambda: np.asarray(jax.jit(tf.forward)(jnp.asarray(xs)), dtype=float))
        if err:
            out.violate("raises", f"jit({label}.forward) raised {err.short()}", etype=err.etype, frame=err.frame)
        else:
            out.evals += n
            if not _same(res, y, xs):
                i = int(np.argmax(~np.isclose(res, y, rtol=1e-9, atol=1e-12 * (1 + np.max(np.abs(xs))), equal_nan=True)))
                out.violate("jit", f"{label}: jit forward({xs[i]!r}) = {res[i]!r}, eager {y[i]!r}")
    return y


def _same(a, b, inputs):
    """Two evaluation routes (eager / jit / entry-wise) of the same arithmetic: equal up to
    re-association, i.e. 1e-9 relative plus 1e-12 of the input magnitude (cancellation)."""
    inputs = np.asarray(inputs, float)
    fin = inputs[np.isfinite(inputs)]
    atol = 1e-12 * (1.0 + (np.max(np.abs(fin)) if len(fin) else 0.0))
    return bool(np.allclose(a, b, rtol=1e-9, atol=atol, equal_nan=True))


def _label(node):
    if node["t"] == "chain":
        return "chain[" + ",".join(_label(c) for c in node["ts"]) + "]"
    if node["t"] == "masked":
        return "masked(" + _label(node["inner"]) + ")"
    extra = {k: v for k, v in node.items() if k != "t"}
    return f"{node['t']}{extra}"


def judge(spec, tier="quick"):
    import jax
    import jax.numpy as jnp
    from jaxley.optimize import transforms as T

    out = core.Outcome()
    if spec["kind"] == "single":
        _check_single(out, spec["tree"], spec["xs"], spec["ys"], _label(spec["tree"]))
        out.classes.append("single:" + spec["tree"]["t"])
        return out
    # ParamTransform over a get_parameters()-shaped pytree
    entries = spec["entries"]
    ys = []
    for e in entries:
        ys.append(_check_single(out, e["tree"], e["xs"], None, _label(e["tree"]), jit=False))
    if any(y is None for y in ys) or out.violations:
        return out
    params = [{e["key"]: jnp.asarray(np.asarray(e["xs"], float))} for e in entries]
    tfs, err = core.call(lambda: T.ParamTransform([{e["key"]: make(e["tree"])} for e in entries]))
    if err:
        out.violate("raises", f"ParamTransform() raised {err.short()}", etype=err.etype, frame=err.frame)
        return out
    for mode in ("eager", "jit"):
        fwd = tfs.forward if mode == "eager" else jax.jit(tfs.forward)
        res, err = core.call(fwd, params)
        if err:
            out.violate("raises", f"ParamTransform.forward ({mode}) raised {err.short()}", etype=err.etype, frame=err.frame)
            return out
        if not isinstance(res, list) or len(res) != len(entries):
            out.violate("param-structure", f"ParamTransform.forward returned {type(res).__name__} of length {len(res) if hasattr(res,'__len__') else '?'}")
            return out
        for e, r, y in zip(entries, res, ys):
            out.evals += len(e["xs"])
            if list(r.keys()) != [e["key"]]:
                out.violate("param-structure", f"entry keys {list(r.keys())} != [{e['key']}]")
                continue
            got = np.asarray(r[e["key"]], float)
            if not _same(got, y, e["xs"]):
                out.violate("param-entrywise", f"ParamTransform.forward ({mode}) entry {e['key']}: {got.tolist()} != own transform {y.tolist()}")
        inv = tfs.inverse if mode == "eager" else jax.jit(tfs.inverse)
        res2, err = core.call(inv, res)
        if err:
            out.violate("raises", f"ParamTransform.inverse ({mode}) raised {err.short()}", etype=err.etype, frame=err.frame)
            return out
        for e, r, r_fwd in zip(entries, res2, res):
            own, err = core.call(lambda: np.asarray(make(e["tree"]).inverse(r_fwd[e["key"]]), float))
            if err:
                continue
            out.evals += len(e["xs"])
            got = np.asarray(r[e["key"]], float)
            yv = np.asarray(r_fwd[e["key"]], float)
            fin = np.isfinite(got)
            back, err = core.call(lambda: np.asarray(make(e["tree"]).forward(jnp.asarray(np.where(fin, got, 0.0))), float))
            scale = np.maximum(np.abs(yv), 1.0)
            with np.errstate(invalid="ignore"):
                preimage = fin & (np.abs((back if not err else np.full_like(yv, np.nan)) - yv) <= 1e-9 * scale)
                atol = 1e-12 * (1.0 + np.max(np.abs(yv[np.isfinite(yv)])) if np.isfinite(yv).any() else 1.0)
                close = np.isclose(got, own, rtol=1e-9, atol=atol, equal_nan=True)
            both_nonfinite = ~fin & ~np.isfinite(own)
            # only points where the entry's own round trip is well-conditioned are judged
            # (near saturation eager and jit arithmetic legitimately differ, even in finiteness)
            xin = np.asarray(e["xs"], float)
            with np.errstate(invalid="ignore"):
                well = np.abs(own - xin) <= 1e-6 * (1.0 + np.abs(xin))
            out.inconclusive += int((~well).sum())
            if not bool(np.all(close | preimage | both_nonfinite | ~well)):
                out.violate("param-entrywise", f"ParamTransform.inverse ({mode}) entry {e['key']}: {got.tolist()} != own inverse {own.tolist()}")
    out.classes.append(f"param:{len(entries)}")
    out.nontrivial_keys.append(core.h(spec))
    return out


PREDICATES = {}
