"""C01 - every voltage step solves the discretised cable equation; backends agree."""
from __future__ import annotations

import numpy as np
from hypothesis import strategies as st

from vp.gen.morph import fl

from vp import core
from vp.gen import morph as gm

ID = "C01"
SOLVERS = ["bwd_euler", "crank_nicolson", "fwd_euler"]
BACKENDS = ["jaxley.stone", "jaxley.thomas", "jax.sparse"]

RULE = (
    "Hypothesis draws a morphology (compartment / branch / cell with a free parent vector or a canonical "
    "shape / network of 2-4 cells), per-branch compartment counts, per-compartment radius, length, axial "
    "resistivity, capacitance, initial voltage, a Leak conductance/reversal on a drawn subset of compartments, "
    "0-3 current injections and dt in [1e-4,10] ms. Every (solver, voltage_solver) pair is stepped once "
    "through build_init_and_step_fn and one drawn pair also through jx.integrate; each returned voltage vector "
    "is one oracle evaluation against the dense NumPy reference R1 (componentwise backward error and a "
    "condition-number-scaled forward bound), plus pairwise agreement of the backends. In a third of the cases a sibling "
    "model (same tree, one branch re-discretised within the padded layout) is stepped first in the same process: "
    "nothing the solvers keep from it may change the judged result. Non-trivial: (>=1 "
    "branch point and >=2 distinct compartment counts) or >=2 cells; distinct = hash(structure, solver, backend)."
)
ASSUMPTIONS = [
    "float64, CPU",
    "reference R1 (vp/ref/cable.py): dense Laplacian with zero-capacitance Kirchhoff nodes, numpy.linalg.solve",
    "parameter ranges radius [0.1,20] um, length [0.5,500] um, Ra [10,2e4] ohm cm, cm [0.1,5] uF/cm2, g [1e-6,1e-2] S/cm2",
    "acceptance: backward error <= 1e-8 and |v'-v_ref| <= (max(1e3*n*eps, 1e-11)*cond + 1e-9)*max|v| + 1e-8 mV (1e-11: backward error granted to the solvers, measured 8e-13 on stiff two-compartment models; 1e-9: cancellation of the library's secant conductance (i(v+d)-i(v))/d, d = 1e-3 today, with a decade of margin); cases with cond>1e12 are filtered",
    "a backend that raises is a counted refusal, as the property allows",
]
TECHNIQUE = "property-based testing (Hypothesis) against an independent dense reference solver + differential across backends"
LEVEL_TEXT = (
    "Generated morphologies and parameters; every solver x backend result is compared with an independently "
    "assembled dense linear system (backward-error + forward bound) and with the other backends. Reaches the "
    "tree-shape x heterogeneous-ncomp space the unit tests never sample. Search, not proof."
)


def budget(tier):
    return 20 if tier == "quick" else 300


def wall_guard(tier):
    return 900 if tier == "quick" else 7200


@st.composite
def _spec(draw, tier):
    morph = draw(gm.morphology(tier))
    N = gm.n_compartments(morph["cells"])
    rows = sorted(draw(st.sets(st.integers(0, N - 1), max_size=N)))
    if draw(st.booleans()):
        rows = list(range(N))
    leak = {
        "rows": rows,
        "g": [draw(gm.log_uniform(1e-6, 1e-2)) for _ in rows],
        "e": [draw(fl(-90.0, -40.0)) for _ in rows],
    }
    nst = draw(st.integers(0, 3))
    stim = [[draw(st.integers(0, N - 1)), draw(fl(-5.0, 5.0))] for _ in range(nst)]
    dt = draw(st.one_of(st.sampled_from([0.025, 0.1, 1.0]), gm.log_uniform(1e-4, 10.0)))
    cfg = [draw(st.sampled_from(SOLVERS[:2] * 2 + SOLVERS[2:])), draw(st.sampled_from(BACKENDS))]
    spec = {"morph": morph, "leak": leak, "stim": stim, "dt": dt, "integrate_cfg": cfg}
    # history in the process: sometimes a *sibling* model (same tree, one branch with another compartment count that
    # does not exceed the other branches', so that padded layouts coincide) is stepped first; whatever the solvers
    # remember from it (caches keyed by layout, module-level state) must not leak into the judged model
    multi = [ci for ci, c in enumerate(morph["cells"]) if len(c["ncomp"]) >= 2]
    if multi and draw(st.integers(0, 2)) == 0:
        ci = draw(st.sampled_from(multi))
        nc = morph["cells"][ci]["ncomp"]
        bi = draw(st.integers(0, len(nc) - 1))
        top = max(n for j, n in enumerate(nc) if j != bi)
        cands = [n for n in range(1, top + 1) if n != nc[bi]]
        if cands:
            spec["warmup"] = {"cell": ci, "branch": bi, "n": draw(st.sampled_from(cands))}
    return spec


def strategy(tier):
    return _spec(tier)


def size(spec):
    m = spec["morph"]
    return (gm.n_compartments(m["cells"]), len(spec["stim"]), core.spec_size(spec))


def reference(spec):
    from vp.ref.cable import Cable

    m = spec["morph"]
    parents, ncomps = gm.global_structure(m)
    cab = Cable(parents, ncomps, m["radius"], m["length"], m["axial_resistivity"], m["capacitance"])
    N = cab.N
    g = np.zeros(N)
    e = np.zeros(N)
    for r, gg, ee in zip(spec["leak"]["rows"], spec["leak"]["g"], spec["leak"]["e"]):
        g[r], e[r] = gg, ee
    gm_mS = g * cab.area * 1e3
    const = gm_mS * e
    for r, amp in spec["stim"]:
        const[r] += amp * 1e-3
    return cab, gm_mS, const


def build(spec):
    from vp.build import build_module, insert_leak

    m = build_module(spec["morph"])
    insert_leak(m, spec["leak"])
    return m


def sibling_spec(spec):
    """The warm-up model: same tree and parameters, one branch re-discretised (uniform copy of its first compartment)."""
    import copy

    w = spec["warmup"]
    m = copy.deepcopy(spec["morph"])
    rows = gm.rows(spec["morph"])
    m["cells"][w["cell"]]["ncomp"][w["branch"]] = int(w["n"])
    # position of the branch among all branches (rows carry the global branch index in column 1)
    first = [i for i, r in enumerate(rows) if r[0] == w["cell"]]
    gb = sorted({rows[i][1] for i in first})[w["branch"]]
    for key in ("radius", "length", "axial_resistivity", "capacitance", "v"):
        vals, done = [], False
        for i, r in enumerate(rows):
            if r[1] == gb:
                if not done:
                    vals.extend([spec["morph"][key][i]] * int(w["n"]))
                    done = True
            else:
                vals.append(spec["morph"][key][i])
        m[key] = vals
    return {"morph": m, "leak": {"rows": [], "g": [], "e": []}, "stim": [], "dt": spec["dt"], "integrate_cfg": spec["integrate_cfg"]}


def one_step_stepfn(m, spec, solver, backend):
    import jax.numpy as jnp
    from jaxley.integrate import build_init_and_step_fn

    dt = float(spec["dt"])
    m.to_jax()
    init_fn, step_fn = build_init_and_step_fn(m, voltage_solver=backend, solver=solver)
    states, params = init_fn([], None, None, dt)
    if spec["stim"]:
        externals = {"i": jnp.asarray([a for _, a in spec["stim"]], dtype=float)}
        inds = {"i": jnp.asarray([r for r, _ in spec["stim"]], dtype=int)}
    else:
        externals, inds = {}, {}
    new = step_fn(states, params, externals, inds, dt)
    return np.asarray(new["v"], dtype=np.float64)


def one_step_integrate(spec, solver, backend):
    import jax.numpy as jnp
    import jaxley as jx

    m = build(spec)
    dt = float(spec["dt"])
    for r, amp in spec["stim"]:
        view = m.select(nodes=[int(r)]) if len(m.nodes) > 1 else m
        view.stimulate(jnp.asarray([float(amp)]), verbose=False)
    m.record("v", verbose=False)
    kw = dict(delta_t=dt, solver=solver, voltage_solver=backend)
    if not spec["stim"]:
        kw["t_max"] = dt
    out = np.asarray(jx.integrate(m, **kw), dtype=np.float64)
    return out


def bwd_unit(n):
    """Backward error granted to a solver in the forward bound `bwd_unit * cond`: 1e3 n eps, but not below 1e-11
    (45000 eps). The library eliminates zero-capacitance branch-point nodes and works per unit membrane area; on
    two-compartment models with area ratios of 70 and voltages of 4e5 mV its componentwise backward error was measured
    at 8e-13 = 3750 eps (all three backends, reference included), which is round-off, not a wrong scheme."""
    return max(1e3 * n * np.finfo(float).eps, 1e-11)


def judge(spec, tier="quick"):
    out = core.Outcome()
    cab, gm_mS, const = reference(spec)
    v0 = np.asarray(spec["morph"]["v"], float)
    dt = float(spec["dt"])
    N = cab.N
    m, err = core.call(build, spec)
    if err:
        out.violate("build-raises", f"building the model raised {err.short()}", etype=err.etype, frame=err.frame)
        return out
    out.classes.extend(gm.structure_classes(spec["morph"]))
    if spec.get("warmup"):
        sib = sibling_spec(spec)
        ms, e0 = core.call(build, sib)
        if not e0:
            for backend in BACKENDS[:2]:
                core.call(one_step_stepfn, ms, sib, "bwd_euler", backend)  # result not judged here
            out.classes.append("sibling stepped first")
    if dt > 1:
        out.classes.append("dt>1")
    nontriv = gm.is_nontrivial_structure(spec["morph"])
    struct_key = core.h([spec["morph"]["cells"], spec["morph"]["kind"]])
    results = {}
    tols = {}
    for solver in SOLVERS:
        ref = cab.step(solver, dt, v0, gm_mS, const)
        for backend in BACKENDS:
            got, err = core.call(one_step_stepfn, m, spec, solver, backend)
            if err:
                out.refusals.append(f"{solver}/{backend}:{err.etype}@{err.frame}")
                continue
            if got.shape != (N,) or not np.isfinite(got).all():
                out.violate("shape-finite", f"{solver}/{backend}: step_fn returned shape {got.shape}, finite={np.isfinite(got).all()}")
                continue
            be, cond = cab.backward_error(solver, dt, v0, got, gm_mS, const)
            if cond > 1e12:
                out.filtered += 1
                continue
            scale = max(np.max(np.abs(got)), np.max(np.abs(ref)), 1.0)
            fwd_tol = (bwd_unit(N) * cond + 1e-9) * scale + 1e-8
            errv = float(np.max(np.abs(got - ref)))
            out.evals += 1
            results[(solver, backend)] = got
            tols[(solver, backend)] = fwd_tol
            if nontriv:
                out.nontrivial_keys.append(f"{struct_key}|{solver}|{backend}")
            # the backward-error clause needs a forward error above rounding of the voltage scale
            # (XLA flushes denormals to zero: a 5e-324 mV "error" has backward error 1)
            if (be > 1e-8 and errv > 1e-12 * scale) or errv > fwd_tol:
                out.violate(
                    f"reference:{solver}:{backend}",
                    f"{solver}/{backend} step_fn: max|v'-v_ref|={errv:.3e} mV (tol {fwd_tol:.1e}), backward error {be:.2e}; "
                    f"cells={spec['morph']['cells']}",
                    err=errv,
                )
        # pairwise agreement of accepting backends
        acc = [b for b in BACKENDS if (solver, b) in results]
        for i in range(len(acc)):
            for j in range(i + 1, len(acc)):
                d = float(np.max(np.abs(results[(solver, acc[i])] - results[(solver, acc[j])])))
                if d > tols[(solver, acc[i])] + tols[(solver, acc[j])]:
                    out.violate(f"backends-differ:{solver}", f"{acc[i]} vs {acc[j]} under {solver}: {d:.3e} mV")
    # integrate route for the drawn configuration
    solver, backend = spec["integrate_cfg"]
    got, err = core.call(one_step_integrate, spec, solver, backend)
    if err:
        out.refusals.append(f"integrate:{solver}/{backend}:{err.etype}@{err.frame}")
    else:
        ref = cab.step(solver, dt, v0, gm_mS, const)
        if got.ndim != 2 or got.shape[0] != N or got.shape[1] < 2:
            out.violate("shape-finite", f"integrate returned shape {got.shape} for {N} recorded compartments")
        else:
            be, cond = cab.backward_error(solver, dt, v0, got[:, 1], gm_mS, const)
            if cond <= 1e12:
                scale = max(np.max(np.abs(got[:, 1])), 1.0) if np.isfinite(got[:, 1]).all() else 1.0
                fwd_tol = (bwd_unit(N) * cond + 1e-9) * scale + 1e-8
                errv = float(np.max(np.abs(got[:, 1] - ref)))
                e0 = float(np.max(np.abs(got[:, 0] - v0)))
                out.evals += 1
                if nontriv:
                    out.nontrivial_keys.append(f"{struct_key}|integrate|{solver}|{backend}")
                if e0 > 0:
                    out.violate("integrate-col0", f"column 0 differs from the initial voltages by {e0:.3e}")
                if not (errv <= fwd_tol) or (be > 1e-8 and errv > 1e-12 * scale):
                    out.violate(
                        f"reference:{solver}:{backend}",
                        f"{solver}/{backend} integrate[:,1]: max|v'-v_ref|={errv:.3e} mV (tol {fwd_tol:.1e}), backward error {be:.2e}; "
                        f"cells={spec['morph']['cells']}",
                        err=errv,
                    )
            else:
                out.filtered += 1
    return out


PREDICATES = {}
