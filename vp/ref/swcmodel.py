"""R6 - section model of an SWC file (pure Python / NumPy, no jaxley import).

Points: list of (id, type, x, y, z, r, parent) with ids 1..n in depth-first order.

Conventions (from the property statement, the read_swc docstring and tests/test_swc.py):
  * a section is a maximal unbranched run of points of one type; it ends at a point with
    != 1 children or whose only child has another type; its point list starts with the
    point it is attached to
  * single-point soma: one section consisting of that point, length 2r (cylinder with the
    area of the sphere); the segment from that soma point to the first point of a neurite is ignored
  * a section of total length 0 gets length 1 um
  * if several sections start at the root point without a parent section, a dummy root of
    length 0.1 um, type 5 (custom) and the root point's radius is prepended
  * radius at a location = linear interpolation of the traced radii along the path length;
    when a section starts on a point of another type, the profile with the first radius
    replaced by the second (the reader's NEURON-like convention) is accepted as well
"""
from __future__ import annotations

import collections

import numpy as np

NAMES = {0: "undefined", 1: "soma", 2: "axon", 3: "basal", 4: "apical", 5: "custom"}


def group_name(t):
    t = int(t)
    return NAMES[t] if t in NAMES else f"custom{t}"


def sections(points):
    typ = {p[0]: int(p[1]) for p in points}
    xyz = {p[0]: np.array(p[2:5], float) for p in points}
    rad = {p[0]: float(p[5]) for p in points}
    ch = collections.defaultdict(list)
    for p in points:
        if p[6] != -1:
            ch[p[6]].append(p[0])
    sps = typ[1] == 1 and (len(points) < 2 or typ[2] != 1)

    def is_break(p):
        c = ch[p]
        return len(c) != 1 or typ[c[0]] != typ[p]

    secs = []  # (point list, type)

    def follow(p0, first):
        stack = [(p0, first)]
        while stack:
            a, b = stack.pop(0)
            lst = [a, b]
            cur = b
            while not is_break(cur):
                cur = ch[cur][0]
                lst.append(cur)
            secs.append((lst, typ[b]))
            for c in ch[cur]:
                stack.append((cur, c))

    if sps or is_break(1):
        if sps:
            secs.append(([1], 1))
        for c in ch[1]:
            follow(1, c)
    else:
        lst = [1]
        cur = 1
        while not is_break(cur):
            cur = ch[cur][0]
            lst.append(cur)
        secs.append((lst, 1 if typ[1] == 1 else typ[1]))
        for c in ch[cur]:
            follow(cur, c)
    out = []
    for lst, t in secs:
        if len(lst) == 1:
            seg = np.array([2 * rad[lst[0]]])
        else:
            seg = np.array([np.linalg.norm(xyz[a] - xyz[b]) for a, b in zip(lst[:-1], lst[1:])])
            if sps and typ[lst[0]] == 1 and typ[lst[1]] != 1:
                seg[0] = 0.0
        L = float(seg.sum())
        out.append({"points": list(lst), "type": t, "segments": seg, "length": L if L > 0 else 1.0,
                    "coords": np.array([[*xyz[i], rad[i]] for i in lst])})
    last = {}
    for i, s in enumerate(out):
        last.setdefault(s["points"][-1], i)
    for i, s in enumerate(out):
        p0 = s["points"][0]
        s["parent"] = -1 if (len(s["points"]) == 1 or p0 not in last or last[p0] == i) else last[p0]
    nroots = sum(1 for s in out if s["parent"] == -1)
    if nroots > 1:
        for s in out:
            s["parent"] += 1  # roots (-1) attach to the dummy (0)
        root = points[0]
        out.insert(0, {"points": [root[0]], "type": 5, "segments": np.array([0.1]), "length": 0.1, "parent": -1,
                       "coords": np.array([[*xyz[root[0]], rad[root[0]]]]), "dummy": True})
    for s in out:
        ptype = out[s["parent"]]["type"] if s["parent"] >= 0 else None
        r = np.array([rad[i] for i in s["points"]], float)
        if s.get("dummy"):
            s["radii"] = np.array([rad[points[0][0]]] * 2)
            s["cut"] = np.array([0.0, 1.0])
            continue
        if len(r) == 1:
            s["radii"] = np.array([r[0], r[0]])
            s["cut"] = np.array([0.0, 1.0])
            continue
        seg = np.maximum(s["segments"], 1e-8)
        s["cut"] = np.concatenate([[0.0], np.cumsum(seg)]) / seg.sum()
        s["radii"] = r
        if typ[s["points"][0]] != s["type"]:
            # the section starts on a point of another type (soma -> neurite, or a type change):
            # the reader's convention (taken from NEURON, stated in a code comment only) replaces
            # the first radius by the second; the property speaks of plain interpolation. Both
            # profiles are accepted.
            r2 = r.copy()
            r2[0] = r2[1]
            s["radii_alt"] = r2
    return out


def radius_at(sec, locs, min_radius=None, alt=False):
    r = np.interp(np.asarray(locs, float), sec["cut"], sec["radii_alt"] if alt and "radii_alt" in sec else sec["radii"])
    if min_radius is not None:
        r = np.maximum(r, min_radius)
    return r
