"""C19 - any editing history leaves a consistent module that simulates its tables."""
from __future__ import annotations

import itertools

import numpy as np
from hypothesis import strategies as st

from vp.gen.morph import fl
from vp import core, ops
from vp.gen import morph as gm

ID = "C19"
RULE = (
    "Histories as data: Hypothesis draws an irregular cell or a network of 2-3 cells and a list of up to 12 (quick) / 30 "
    "(thorough) late-bound operations out of insert, delete_channel, set, set_ncomp, add_to_group, record, delete_recordings, "
    "stimulate, clamp, delete_stimuli, delete_clamps, make_trainable, delete_trainables, connect, init_states (plus setting, "
    "recording and making trainable synaptic parameters and states through edge views, and delete_trainables through edge views), each on a drawn view (whole module or a row subset); targets are fractions resolved against "
    "the module's current size, so every op is well-formed when it runs. After every accepted op: (i) consistency invariants of "
    "all public tables, (ii) frame condition - the diff of a deep snapshot must lie inside the op's declared footprint, (iii) "
    "postconditions of deletions (delete after insert restores the table; delete_* removes exactly the viewed entries and keeps all others with their values). At the "
    "end integrate runs for 4 steps and every recording is compared with the reference simulator R3 built from the displayed "
    "tables. The thorough tier additionally enumerates ALL sequences of length <= 3 over 14 (cell) / 17 (network) fixed op templates on a fixed 3-branch "
    "cell and a fixed 2-cell network. Non-trivial: a deletion after a matching insertion, or >= 3 different op kinds; "
    "distinct = hash(op log)."
)
ASSUMPTIONS = [
    "documented preconditions (set_ncomp: no recordings/inputs/trainables, not a network, not all branches, uniform branch) make a refusal legitimate; "
    "any other refusal of an editing op ends the history and is listed under refusals, an exception inside pandas/NumPy/JAX under internal_crashes",
    "an exception of a delete_* call, and any exception of integrate on a module whose tables pass the invariants, is a violation",
    "states are recorded/clamped only where they exist",
    "reference simulator R3 (vp/ref/sim.py); tolerance 1e-6 + 1e-8*scale over 4 steps; integrate is called with params=[] so that it simulates the tables",
]
TECHNIQUE = "model-based property testing of call histories (Hypothesis op lists with late-bound targets; bounded exhaustive enumeration in the thorough tier): invariants + frame conditions + reference simulator"
LEVEL_TEXT = (
    "Generated (and, to depth 3 over a reduced alphabet, exhaustively enumerated) editing histories; after every operation the "
    "public tables must satisfy the consistency invariants and change only inside the operation's footprint, deletions must undo "
    "insertions, and the final module must simulate exactly what its tables display (reference simulator)."
)


def budget(tier):
    return 30 if tier == "quick" else 300


def wall_guard(tier):
    return 1500 if tier == "quick" else 7200


@st.composite
def _spec(draw, tier):
    network = draw(st.booleans())
    if network:
        cells = [draw(gm.cell_struct(3, 3)) for _ in range(draw(st.integers(2, 3)))]
    else:
        cells = [draw(gm.cell_struct(4, 3))]
        if len(cells[0]["parents"]) == 1:
            cells[0] = {"parents": [-1, 0], "ncomp": cells[0]["ncomp"] + [draw(st.integers(1, 3))]}
    nmax = 12 if tier == "quick" else 30
    oplist = []
    for _ in range(draw(st.integers(1, nmax))):
        op = draw(ops.op_spec(network))
        oplist.append(op)
        # a deletion right after its insertion is the pattern "deletions undo their insertions"
        if op["op"] == "insert" and draw(st.integers(0, 3)) == 0:
            oplist.append({"op": "delete_channel", "mech": op["mech"], "rows": op["rows"], "pick": 0.0, "same_as_insert": True})
        # two mechanisms that share a column (vt, eK, eCa): a partial deletion of one of them must blank exactly its
        # own columns where the other one stays, and keep the shared column there
        partner = {"Na": "K", "K": "Km", "Km": "K", "CaL": "CaT", "CaT": "CaL"}.get(op.get("mech")) if op["op"] == "insert" else None
        if partner and draw(st.integers(0, 3)) == 0:
            oplist.append({"op": "insert", "mech": partner, "rows": draw(st.sampled_from(["all", op["rows"]]))})
            oplist.append({"op": "delete_channel", "mech": draw(st.sampled_from([partner, op["mech"]])), "exact": True,
                           "rows": draw(st.lists(fl(0.0, 0.999), min_size=1, max_size=2)), "pick": 0.0})
        # a second insertion of the same mechanism elsewhere must leave the customised first one alone
        if op["op"] == "insert" and draw(st.integers(0, 3)) == 0:
            oplist.append({"op": "set", "key": draw(st.sampled_from(["chan_param", "chan_state"])), "mech": op["mech"], "rows": op["rows"],
                           "pick": 0.0, "u": draw(fl(0.0, 1.0))})
            oplist.append({"op": "insert", "mech": op["mech"], "rows": draw(ops.ROWS)})
        # ... and a view-level deletion after (several) matching insertions on other rows
        follow = {"record": "delete_recordings", "stimulate": "delete_stimuli", "clamp": "delete_clamps", "make_trainable": "delete_trainables"}
        if op["op"] in follow and draw(st.integers(0, 2)) == 0:
            second = dict(op, rows=draw(ops.ROWS))
            oplist.append(second)
            cands = [op["rows"], second["rows"], "all"]
            if draw(st.booleans()):
                # a third one: a partial deletion then leaves several survivors, whose order and pairing with their
                # values must stay as inserted
                third = dict(op, rows=draw(ops.ROWS))
                if "amp" in third:
                    third["amp"] = draw(fl(-0.2, 0.5))
                if "u" in third:
                    third["u"] = draw(fl(0.0, 1.0))
                oplist.append(third)
                cands = [op["rows"], second["rows"], third["rows"], third["rows"]]
            d = {"op": follow[op["op"]], "rows": draw(st.sampled_from(cands))}
            if d["op"] == "delete_clamps":
                d["state"] = draw(st.sampled_from([None, "v"]))
            oplist.append(d)
        # group bookkeeping must follow a later change of the compartment count
        if op["op"] == "add_to_group" and not network and draw(st.integers(0, 1)) == 0:
            oplist.append({"op": "set_ncomp", "branch": draw(fl(0.0, 0.999)), "n": draw(st.integers(1, 4))})
        # synaptic trainables (parameters and initial states) followed by a deletion through a node view or an edge view
        if op["op"] == "make_trainable_edge" and draw(st.integers(0, 1)) == 0:
            if draw(st.booleans()):
                op["u"] = 0.999  # the last name of (parameters + states): a synaptic *state* where the type has one
            for _c in range(draw(st.integers(1, 3))):  # make sure there are synapses to train
                oplist.insert(len(oplist) - 1, {"op": "connect", "pre": draw(fl(0.0, 0.999)), "post": draw(fl(0.0, 0.999)), "type": draw(st.sampled_from(ops.SYN))})
            if draw(st.booleans()):
                oplist.append({"op": "make_trainable", "key": draw(st.sampled_from(["radius", "length", "v"])), "rows": draw(ops.ROWS), "pick": 0.0})
            oplist.append(draw(st.sampled_from([{"op": "delete_trainables", "rows": draw(ops.ROWS)},
                                                {"op": "delete_trainables_edge", "pick": draw(fl(0.0, 0.999)), "edges": draw(ops.ROWS)}])))
    return {"kind": "network" if network else "cell", "cells": cells, "ops": oplist,
            "solver": draw(st.sampled_from(["bwd_euler", "bwd_euler", "crank_nicolson"])), "backend": draw(st.sampled_from(["jaxley.stone", "jax.sparse"]))}


def strategy(tier):
    return _spec(tier)


def size(spec):
    return (len(spec["ops"]), sum(sum(c["ncomp"]) for c in spec["cells"]), core.spec_size(spec))


# ---------------------------------------------------------------------------------------
# bounded exhaustive enumeration (thorough tier)
# ---------------------------------------------------------------------------------------

TEMPLATES_CELL = [
    {"op": "insert", "mech": "Na", "rows": "all"}, {"op": "insert", "mech": "K", "rows": [0.0, 0.5]},
    {"op": "insert", "mech": "HH", "rows": [0.3]}, {"op": "delete_channel", "mech": "K", "rows": "all", "pick": 0.0},
    {"op": "delete_channel", "mech": "Na", "rows": [0.0], "pick": 0.99}, {"op": "set", "key": "radius", "rows": [0.7], "pick": 0.0, "u": 0.3},
    {"op": "set_ncomp", "branch": 0.4, "n": 1}, {"op": "add_to_group", "name": "grpA", "rows": [0.5, 0.9]},
    {"op": "record", "state": "v", "rows": [0.2, 0.8], "pick": 0.0}, {"op": "delete_recordings", "rows": [0.2]},
    {"op": "stimulate", "rows": [0.0], "amp": 0.1}, {"op": "delete_stimuli", "rows": "all"},
    {"op": "make_trainable", "key": "radius", "rows": [0.1, 0.6], "pick": 0.0}, {"op": "delete_trainables", "rows": [0.1]},
]
TEMPLATES_NET = [t for t in TEMPLATES_CELL if t["op"] != "set_ncomp"] + [
    {"op": "connect", "pre": 0.0, "post": 0.9, "type": "IonotropicSynapse"}, {"op": "connect", "pre": 0.6, "post": 0.1, "type": "TestSynapse"},
    {"op": "record_edge", "pick": 0.99, "edges": "all"}, {"op": "make_trainable_edge", "pick": 0.0, "edges": "all", "u": 0.999},
]


def enumerate_cases(tier):
    if tier != "thorough":
        return []
    out = []
    for kind, cells, templates in (("cell", [{"parents": [-1, 0, 0], "ncomp": [2, 1, 3]}], TEMPLATES_CELL),
                                   ("network", [{"parents": [-1, 0], "ncomp": [1, 2]}, {"parents": [-1], "ncomp": [2]}], TEMPLATES_NET)):
        for n in (1, 2, 3):
            for seq in itertools.product(range(len(templates)), repeat=n):
                out.append({"kind": kind, "cells": cells, "ops": [templates[i] for i in seq], "solver": "bwd_euler", "backend": "jax.sparse", "enumerated": True})
    return out


# ---------------------------------------------------------------------------------------


def build(spec):
    import jaxley as jx
    from vp.build import build_cell

    if spec["kind"] == "cell":
        return build_cell(spec["cells"][0])
    return jx.Network([build_cell(c) for c in spec["cells"]])


def _fmt(log):
    return [{k: v for k, v in r.items() if k not in ("in_view",)} for r in log]


def judge(spec, tier="quick"):
    import jaxley as jx
    from vp import snap
    from vp.ref import sim as R3

    out = core.Outcome()
    m, err = core.call(build, spec)
    if err:
        out.internal_crashes.append(f"build:{err.etype}@{err.frame}")
        return out
    log = []
    kinds = set()
    deletion_after_insert = False
    inserted = {}  # name -> True once inserted in this history
    prev = None  # (record, snapshot before it)
    for op in spec["ops"]:
        rec = ops.resolve(m, op)
        if rec is None:
            out.notes.append("op not applicable: " + op["op"])
            continue
        if op.get("same_as_insert") and (prev is None or prev[0]["op"] != "insert"):
            continue
        if op.get("same_as_insert"):
            rec = {"op": "delete_channel", "mech": prev[0]["mech"], "name": prev[0]["mech"], "rows": prev[0]["rows"], "in_view": True}
        why = ops.precondition_violated(m, rec)
        s0 = snap.snapshot(m)
        _, err = core.call(ops.apply, m, rec)
        label = f"history {_fmt(log + [rec])} on {spec['kind']} {spec['cells']}"
        is_delete = rec["op"].startswith("delete_")
        if err:
            if why:
                out.refusals.append(f"{rec['op']}: {why}")
            elif is_delete and (rec["op"] != "delete_channel" or rec["in_view"]):
                out.violate(f"delete-raises:{rec['op']}", f"{rec['op']} raised {err.short()}; {label}", etype=err.etype, frame=err.frame)
            elif err.is_refusal():
                out.refusals.append(f"{rec['op']}: {err.etype}: {err.msg[:60]}")
            else:
                out.internal_crashes.append(f"{rec['op']}:{err.etype}@{err.frame}")
                out.notes.append(f"internal crash in {rec['op']}: {err.short()[:120]}")
            break
        if why and rec["op"] == "set_ncomp":
            out.notes.append("set_ncomp accepted although a documented precondition does not hold: " + why)
        log.append(rec)
        kinds.add(rec["op"])
        out.evals += 1
        out.classes.append("op:" + rec["op"])
        # (i) invariants
        bad = ops.invariants(m)
        if bad:
            out.violate(f"invariant:{bad[0][0]}:{rec['op']}", f"after {rec['op']}: {bad[0][1]}; {label}", last_op=rec["op"])
            return out
        # (ii) frame condition
        if rec["op"] != "set_ncomp":
            s1 = snap.snapshot(m)
            d = snap.diff_snapshots(s0, s1)
            allowed, node_ok, edge_ok, cols = ops.footprint(s0, rec)
            extra = set(d) - allowed
            if extra:
                out.violate(f"frame:{rec['op']}", f"{rec['op']} changed {sorted(extra)}, which it must not touch; {label}", last_op=rec["op"])
                return out
            if rec["op"] == "connect" and "edges" in d:
                # a row is appended: the old rows must be unchanged
                n0 = len(s0["edges"])
                old_cols = [c for c in s0["edges"].columns if c != "controlled_by_param"]
                cells, notes = snap.df_diff(s0["edges"][old_cols], s1["edges"].iloc[:n0][old_cols]) if n0 else (set(), [])
                if cells or notes or len(s1["edges"]) != n0 + 1:
                    out.violate("frame:connect", f"connect changed existing edge rows {sorted(cells)[:6]} {notes[:2]} or did not append exactly one row; {label}", last_op="connect")
                    return out
                d.pop("edges")
            for tname, ok in (("nodes", node_ok), ("edges", edge_ok)):
                if tname in d:
                    wrong = sorted(c for c in d[tname]["cells"] if not ok(c))
                    notes = [n_ for n_ in d[tname]["notes"] if not (n_[0] == "columns" and (set(n_[1]) <= cols or rec["op"] == "connect"))]
                    if wrong or notes:
                        out.violate(f"frame:{rec['op']}", f"{rec['op']} changed {tname} cells {wrong[:6]} {notes[:2]} outside its footprint; {label}", last_op=rec["op"])
                        return out
            # (iii) postconditions of deletions
            bad = _post(rec, s0, s1, prev)
            if bad:
                out.violate(f"post:{rec['op']}", f"{bad}; {label}", last_op=rec["op"])
                return out
            if is_delete and prev is not None and rec["op"] == "delete_channel" and prev[0]["op"] == "insert" and prev[0]["mech"] == rec["name"]:
                deletion_after_insert = True
        prev = (rec, s0)
    if len(kinds) >= 3 or deletion_after_insert:
        out.nontrivial_keys.append(core.h([spec["kind"], spec["cells"], _fmt(log)]))
    # ---- final simulation against R3 -----------------------------------------------------
    if not log:
        return out
    label = f"history {_fmt(log)} on {spec['kind']} {spec['cells']}"
    added_rec = False
    if len(m.recordings) == 0:
        m.record("v", verbose=False)
        added_rec = True
    T = ops.L_INPUT
    kw = dict(delta_t=0.025, solver=spec["solver"], voltage_solver=spec["backend"])
    if not m.externals:
        kw["t_max"] = (T - 0.5) * 0.025
    got, err = core.call(lambda: np.asarray(jx.integrate(m, **kw), float))
    if err and "solver_utils" in err.frame and spec["backend"] != "jax.sparse":
        out.refusals.append(f"integrate:{spec['backend']}:{err.etype}")
        kw["voltage_solver"] = "jax.sparse"
        got, err = core.call(lambda: np.asarray(jx.integrate(m, **kw), float))
    out.evals += 1
    if err:
        out.violate("integrate-raises", f"integrate raised {err.short()} on a module whose tables pass all consistency invariants; {label}", etype=err.etype, frame=err.frame)
        return out
    recs = list(zip(m.recordings["rec_index"], m.recordings["state"]))
    if got.shape != (len(recs), T + 1):
        out.violate("integrate-shape", f"integrate returned {got.shape} for {len(recs)} recordings and {T} steps; {label}")
        return out
    t = R3.extract(m)
    hist = R3.simulate(t, T, 0.025, spec["solver"])
    if not np.isfinite(hist["v"]).all() or np.max(np.abs(hist["v"])) > 300:
        out.filtered += 1
        return out
    for k, (idx, state) in enumerate(recs):
        ref = hist[state][int(idx)]
        scale = max(1.0, float(np.nanmax(np.abs(ref)))) if not state.startswith("i_") else max(float(np.nanmax(np.abs(ref))) if np.isfinite(ref).any() else 0.0, 1e-12)
        tol = (1e-6 + 1e-8 * scale) if not state.startswith("i_") else 1e-7 * scale + 1e-15
        same = np.isclose(got[k], ref, rtol=0, atol=tol, equal_nan=True)
        if not same.all():
            j = int(np.argmax(~same))
            out.violate("simulates-tables", f"recording {k} ({state} of target {int(idx)}): column {j} is {got[k, j]!r}, the model displayed by the tables gives {ref[j]!r}; {label}")
            return out
    return out


def _post(rec, s0, s1, prev):
    """Postconditions of deletions; returns a message or None."""
    from vp import snap

    k = rec["op"]
    rows = set(rec.get("rows", []))
    if k == "delete_channel":
        name = rec["name"]
        n1 = s1["nodes"]
        if name in n1.columns and n1.loc[sorted(rows), name].astype(bool).any():
            return f"delete_channel({name}) left the channel in rows {sorted(r for r in rows if bool(n1.loc[r, name]))}"
        if prev is not None and prev[0]["op"] == "insert" and prev[0]["mech"] == name and prev[0]["rows"] == rec["rows"] \
                and name not in prev[1]["channels"]:
            d = snap.diff_snapshots(prev[1], s1)
            if d:
                detail = {kk: (sorted(v["cells"])[:6], v["notes"][:2]) if isinstance(v, dict) else v for kk, v in d.items()}
                return f"insert({name}) followed by delete_channel({name}) on the same rows does not restore the module: {detail}"
    elif k == "delete_recordings":
        r0 = [(int(i), s_) for i, s_ in zip(s0["recordings"]["rec_index"], s0["recordings"]["state"])] if len(s0["recordings"]) else []
        r1 = [(int(i), s_) for i, s_ in zip(s1["recordings"]["rec_index"], s1["recordings"]["state"])] if len(s1["recordings"]) else []
        if rec["whole"]:
            if r1:
                return f"delete_recordings() on the module left {r1}"
        else:
            node_recs = [x for x in r0 if not _is_edge_state(x[1])]
            want = [x for x in node_recs if x[0] not in rows]
            got = [x for x in r1 if not _is_edge_state(x[1])]
            if got != want:
                return f"view.delete_recordings() on rows {sorted(rows)}: recordings {node_recs} -> {got}, expected {want}"
    elif k in ("delete_stimuli", "delete_clamps"):
        keys = ["i"] if k == "delete_stimuli" else ([rec["state"]] if rec["state"] else [kk for kk in s0["externals"] if kk != "i"])
        for key in set(s0["externals"]) | set(s1["externals"]):
            i0 = [int(x) for x in s0["external_inds"].get(key, [])]
            v0 = np.asarray(s0["externals"].get(key, np.zeros((0, ops.L_INPUT))))
            i1 = [int(x) for x in s1["external_inds"].get(key, [])]
            v1 = np.asarray(s1["externals"].get(key, np.zeros((0, ops.L_INPUT))))
            if key in keys and not _is_edge_state(key):
                keep = [j for j, x in enumerate(i0) if x not in rows]
            else:
                keep = list(range(len(i0)))
            if i1 != [i0[j] for j in keep] or (len(keep) and not np.array_equal(v1, v0[keep])):
                return f"{k}({rec.get('state')}) on rows {sorted(rows)}: external_inds[{key}] {i0} -> {i1}, expected {[i0[j] for j in keep]}"
    elif k == "delete_trainables":
        # both directions: every (key, row) pair inside the view is gone, every pair outside the view is still
        # trainable with the value it had (how the library regroups shared parameters is not judged)
        e0 = s0["edges"]
        if rec["whole"]:
            in_nodes, in_edges = None, None
        elif rec.get("via") == "edges":
            in_nodes, in_edges = rows, set(rec["edges"])
        else:
            in_nodes = rows
            in_edges = {int(i) for i in e0.index if int(e0.loc[i, "pre_global_comp_index"]) in rows and int(e0.loc[i, "post_global_comp_index"]) in rows} if len(e0) else set()

        def pairs(snapshot):
            out_ = []
            for p, inds in zip(snapshot["trainable_params"], snapshot["indices_set_by_trainables"]):
                key, val = next(iter(p.items()))
                val = np.asarray(val, dtype=float).ravel()
                inds = np.asarray(inds)
                for r in range(inds.shape[0]):
                    for x in inds[r].ravel():
                        if x >= 0:
                            out_.append((key, int(x), float(val[r]) if r < len(val) else float("nan")))
            return sorted(out_)

        before, after = pairs(s0), pairs(s1)
        def inside(key, x):
            if rec["whole"]:
                return True
            if key in s0["nodes"].columns:
                return x in in_nodes
            return x in in_edges
        want = [t for t in before if not inside(t[0], t[1])]
        if after != want:
            gone = [t for t in want if t not in after]
            left = [t for t in after if t not in want]
            where = "the module" if rec["whole"] else (f"edges {sorted(in_edges)} (nodes {sorted(rows)})" if rec.get("via") == "edges" else f"rows {sorted(rows)} (edges inside: {sorted(in_edges)})")
            return (f"delete_trainables() on {where}: trainable (key, row, value) triples {before[:8]} -> {after[:8]}; "
                    f"wrongly removed {gone[:4]}, wrongly kept {left[:4]}")
    return None


def _is_edge_state(state):
    return any(state.startswith(t + "_") or state == "i_" + t for t in ops.SYN)


def _n12(spec, v):
    """Open finding N12: delete_channel leaves recordings / clamps / trainables of the deleted
    channel's states and parameters behind."""
    return (v.get("last_op") == "delete_channel" and v.get("clause", "").split(":")[1:2] in (["recordings"], ["externals"], ["trainables"])
            and ("no such state any more" in v.get("msg", "") or "no such parameter any more" in v.get("msg", "")))


PREDICATES = {"dangling_references_after_delete_channel": _n12}
