"""C09 - synaptic current flows from the listed pre- to the listed post-compartment."""
from __future__ import annotations

import numpy as np
from hypothesis import strategies as st

from vp.gen.morph import fl

from vp import core
from vp.gen import morph as gm
from vp.gen import net as gn

ID = "C09"
RULE = (
    "Hypothesis draws a network of 2-4 heterogeneous cells (per-compartment geometry and initial voltage), channels "
    "(HH/Leak/Na/K on drawn rows), a multiset of 1-6 synapses (IonotropicSynapse / TestSynapse / TanhRateSynapse, "
    "autapses, fan-in, fan-out, parallel edges, zero conductances) with per-edge parameters and states, a creation order "
    "(permutation), the route by which edge parameters are assigned (select(edges=), <Type>.edge(k), <Type>.set(array), or each "
    "synapse set right after its own connect() call and before the next one), "
    "0-3 stimuli, 4-12 steps, a solver and a backend. Oracles: (1) voltages of ALL compartments vs the table-driven "
    "reference simulator R3; (2) .edges equals the requested per-edge parameters; (3) the same multiset created in another "
    "order gives the same voltages and the same edge rows up to order; (4) with all conductances 0 every cell equals the "
    "cell simulated alone. Non-trivial: >=2 synapse types interleaved in creation order and a compartment with fan-in >=2; "
    "distinct = hash(structure, edge multiset, order, assignment route)."
)
ASSUMPTIONS = [
    "float64, CPU; reference simulator vp/ref/sim.py (R1 dense cable + R2 kinetics) reading only .nodes/.edges/.externals",
    "R3 linearises synaptic currents with the library's secant (pre and post voltage shifted together by 1e-3 mV)",
    "agreement tolerance 1e-6 mV + 1e-8 relative over <=12 steps; order/alone comparisons 1e-9 mV",
    "a backend that refuses the network is a counted refusal and the case is judged with jax.sparse",
    "CaT is not placed here (its kinetics are C04's business)",
]
TECHNIQUE = "property-based testing (Hypothesis): reference simulator + metamorphic (creation order) + differential (zero conductance vs cells alone)"
LEVEL_TEXT = (
    "Generated wirings with interleaved synapse types, fan-in and autapses are simulated and compared with an independent "
    "table-driven reference simulator on every compartment; creation-order permutations and the zero-conductance limit give "
    "metamorphic and differential oracles. Search, not proof."
)


def budget(tier):
    return 10 if tier == "quick" else 150


def wall_guard(tier):
    return 1200 if tier == "quick" else 7200


@st.composite
def _spec(draw, tier):
    morph = draw(gm.morphology(tier, kinds=("network",), max_branches=4, max_ncomp=3, max_cells=3 if tier == "quick" else 4, ranges=gm.RANGES_DYN))
    N = gm.n_compartments(morph["cells"])
    morph["v"] = [draw(fl(-80.0, -30.0)) for _ in range(N)]
    chans = draw(gn.channel_placement(N, mechs=("HH", "HH", "Leak", "Na", "K"), max_ch=2, allow_rename=False))
    edges = draw(gn.edge_list(N, max_edges=6))
    T = draw(st.integers(4, 12))
    stim = draw(gn.stimuli(N, T, max_stim=3))
    order = draw(st.permutations(list(range(len(edges)))))
    order2 = draw(st.permutations(list(range(len(edges)))))
    return {
        "morph": morph, "channels": chans, "edges": edges, "order": list(order), "order2": list(order2),
        "assign": draw(st.sampled_from(["select_edges", "type_view_edge", "type_view_array", "interleaved"])),
        "stim": stim, "nsteps": T, "dt": draw(st.sampled_from([0.025, 0.025, 0.05, 0.1])),
        "solver": draw(st.sampled_from(["bwd_euler", "bwd_euler", "crank_nicolson", "fwd_euler"])),
        "backend": draw(st.sampled_from(gn.BACKENDS)),
    }


def strategy(tier):
    return _spec(tier)


def size(spec):
    return (len(spec["edges"]), gm.n_compartments(spec["morph"]["cells"]), spec["nsteps"], core.spec_size(spec))


def run(m, spec, backend=None, record=True, t_max=None):
    import jaxley as jx

    if record:
        m.record("v", verbose=False)
    kw = dict(delta_t=float(spec["dt"]), solver=spec["solver"], voltage_solver=backend or spec["backend"])
    if not spec["stim"]:
        kw["t_max"] = float(spec["dt"]) * (spec["nsteps"] - 0.5)
    return np.asarray(jx.integrate(m, **kw), float)


def integrate_with_fallback(build_fn, spec, out, label):
    """Build + integrate with the drawn backend; on refusal count it and retry with jax.sparse."""
    m, err = core.call(build_fn)
    if err:
        return None, None, err
    res, err = core.call(run, m, spec)
    if err and spec["backend"] != "jax.sparse" and spec["solver"] != "fwd_euler":
        out.refusals.append(f"{label}:{spec['solver']}/{spec['backend']}:{err.etype}@{err.frame}")
        m, err = core.call(build_fn)
        if err:
            return None, None, err
        res, err = core.call(run, m, spec, "jax.sparse")
    return m, res, err


def expected_edge_rows(spec, order):
    rows = []
    for k in order:
        e = spec["edges"][k]
        d = {"pre": int(e["pre"]), "post": int(e["post"]), "type": e["type"]}
        for key, val in {**e["params"], **e["states"]}.items():
            d[f"{e['type']}_{key}"] = float(val)
        rows.append(d)
    return rows


def edge_rows(m):
    out = []
    ed = m.edges
    for _, r in ed.iterrows():
        d = {"pre": int(r["pre_global_comp_index"]), "post": int(r["post_global_comp_index"]), "type": r["type"]}
        for c in ed.columns:
            if c.startswith(r["type"] + "_"):
                d[c] = float(r[c])
        out.append(d)
    return out


def judge(spec, tier="quick"):
    from vp.ref import sim as R3

    out = core.Outcome()
    N = gm.n_compartments(spec["morph"]["cells"])
    T = int(spec["nsteps"])
    edges = spec["edges"]
    order = spec["order"]
    types_in_order = [edges[k]["type"] for k in order]
    runs = [t for i, t in enumerate(types_in_order) if i == 0 or types_in_order[i - 1] != t]
    interleaved = len(runs) > len(set(types_in_order))  # some type comes back after another one
    fanin = max(np.bincount([e["post"] for e in edges], minlength=N)) >= 2
    if spec["solver"] == "fwd_euler" and any(len(c["parents"]) > 1 for c in spec["morph"]["cells"]):
        spec = dict(spec, solver="bwd_euler")  # forward Euler refuses branched cells
    if spec["solver"] == "fwd_euler" and spec["backend"] == "jax.sparse":
        spec = dict(spec, backend="jaxley.stone")  # the explicit solver only exists for the jaxley backends
    m, got, err = integrate_with_fallback(lambda: gn.build_model(spec, edge_order=order, assign=spec["assign"]), spec, out, "main")
    if err:
        if err.is_refusal() and ("solver" in err.msg.lower() or err.etype == "NotImplementedError"):
            out.refusals.append(f"main:{err.etype}@{err.frame}")
            return out
        out.violate("raises", f"building/simulating the network raised {err.short()}; edges={[(e['pre'], e['post'], e['type']) for e in edges]} order={order}",
                    etype=err.etype, frame=err.frame)
        return out
    out.classes.append("assign:" + spec["assign"])
    out.classes.append(spec["solver"])
    if interleaved:
        out.classes.append("types interleaved")
    if fanin:
        out.classes.append("fan-in>=2")
    if any(e["pre"] // 1 == e["post"] for e in edges):
        pass
    key = core.h([spec["morph"]["cells"], [(e["pre"], e["post"], e["type"]) for e in edges], order, spec["assign"]])
    # (2) edge table == requested parameters
    out.evals += 1
    want_rows = expected_edge_rows(spec, order)
    got_rows = edge_rows(m)
    if got_rows != want_rows:
        bad = [(i, g, w) for i, (g, w) in enumerate(zip(got_rows, want_rows)) if g != w][:2]
        out.violate(f"edge-params:{spec['assign']}", f"parameters assigned via {spec['assign']} did not reach the selected synapses: (row, got, wanted) {bad}; "
                    f"creation order {[(e['pre'], e['post'], e['type']) for e in (edges[k] for k in order)]}")
        return out
    # (1) reference simulator
    if got.shape != (N, T + 1):
        out.violate("shape", f"integrate returned {got.shape}, expected {(N, T + 1)}")
        return out
    t = R3.extract(m)
    hist = R3.simulate(t, T, float(spec["dt"]), spec["solver"])
    ref = hist["v"]
    out.evals += 1
    if interleaved and fanin:
        out.nontrivial_keys.append(key)
    if not np.isfinite(got).all():
        if spec["solver"] == "fwd_euler" and not np.isfinite(ref).all():
            out.notes.append("fwd_euler unstable in both")
        else:
            out.violate("finite", "integrate returned non-finite voltages")
        return out
    scale = max(1.0, float(np.max(np.abs(ref)))) if np.isfinite(ref).all() else np.inf
    if scale > 300.0:
        out.filtered += 1  # voltages far outside the physiological range: ill-posed draw
        return out
    errv = np.abs(got - ref)
    tol = 1e-6 + 1e-8 * scale
    if float(np.max(errv)) > tol:
        i, k = np.unravel_index(int(np.argmax(errv)), errv.shape)
        first = int(np.argmax((errv > tol).any(axis=0)))
        out.violate("reference", f"{spec['solver']}/{spec['backend']}: compartment {i} at step {k}: integrate {got[i, k]!r} vs reference {ref[i, k]!r} "
                    f"(first deviation at step {first}); edges in creation order {[(e['pre'], e['post'], e['type']) for e in (edges[j] for j in order)]}", err=float(np.max(errv)))
        return out
    # (3) another creation order
    if spec["order2"] != order and len(edges) > 1:
        m2, got2, err = integrate_with_fallback(lambda: gn.build_model(spec, edge_order=spec["order2"], assign=spec["assign"]), spec, out, "order2")
        if err:
            out.violate("raises", f"creation order {spec['order2']} raised {err.short()}", etype=err.etype, frame=err.frame)
            return out
        out.evals += 1
        rows2 = edge_rows(m2)
        if sorted(map(core.canon, rows2)) != sorted(map(core.canon, got_rows)):
            out.violate("order-edges", f"creation orders {order} and {spec['order2']} give different edge multisets")
        d = float(np.max(np.abs(got2 - got)))
        if d > 1e-9 * scale + 1e-9:
            out.violate("order-voltages", f"creation orders {order} and {spec['order2']} give voltages differing by {d:.3e} mV; "
                        f"edges={[(e['pre'], e['post'], e['type']) for e in edges]}")
            return out
    # (4) zero conductance == cells alone
    zero = dict(spec, edges=[dict(e, params={k: (0.0 if k.startswith("g") else v) for k, v in e["params"].items()}) for e in edges])
    m0, got0, err = integrate_with_fallback(lambda: gn.build_model(zero, edge_order=order, assign=spec["assign"]), zero, out, "zero-g")
    if err:
        out.violate("raises", f"zero-conductance network raised {err.short()}", etype=err.etype, frame=err.frame)
        return out
    alone, err = core.call(simulate_cells_alone, spec)
    if err:
        out.notes.append("cells-alone run failed: " + err.short()[:80])
        return out
    out.evals += 1
    d = float(np.max(np.abs(got0 - alone)))
    if d > 1e-9 * scale + 1e-9:
        i, k = np.unravel_index(int(np.argmax(np.abs(got0 - alone))), got0.shape)
        out.violate("zero-g-alone", f"with all synaptic conductances 0 compartment {i} differs from its cell simulated alone by {d:.3e} mV at step {k}; "
                    f"edges={[(e['pre'], e['post'], e['type']) for e in edges]}")
    return out


def simulate_cells_alone(spec):
    """Every cell of the network as its own jx.Cell with the same parameters, channels and stimuli."""
    outs = []
    off = 0
    for ci, c in enumerate(spec["morph"]["cells"]):
        n = sum(c["ncomp"])
        rows = list(range(off, off + n))
        sub = {"kind": "cell", "cells": [c]}
        for k in ("radius", "length", "axial_resistivity", "capacitance", "v"):
            sub[k] = [spec["morph"][k][r] for r in rows]
        chans = []
        for ch in spec["channels"]:
            keep = [i for i, r in enumerate(ch["rows"]) if off <= r < off + n]
            if keep:
                chans.append({"mech": ch["mech"], "name": ch["name"], "rows": [ch["rows"][i] - off for i in keep],
                              "params": {k: [v[i] for i in keep] for k, v in ch["params"].items()},
                              "states": {k: [v[i] for i in keep] for k, v in ch["states"].items()}})
        stim = [{"row": s["row"] - off, "samples": s["samples"]} for s in spec["stim"] if off <= s["row"] < off + n]
        cs = dict(spec, morph=sub, channels=chans, edges=[], stim=stim)
        m = gn.build_model(cs)
        backend = "jax.sparse" if spec["solver"] != "fwd_euler" else spec["backend"]
        if not stim:
            import jaxley as jx
            m.record("v", verbose=False)
            T = spec["nsteps"]
            # no stimulus in this cell: run for the same number of steps through a zero stimulus
            import jax.numpy as jnp
            m.select(nodes=[0]).stimulate(jnp.zeros(T), verbose=False) if len(m.nodes) > 1 else m.stimulate(jnp.zeros(T), verbose=False)
            res = np.asarray(jx.integrate(m, delta_t=float(spec["dt"]), solver=spec["solver"], voltage_solver=backend), float)
        else:
            res = run(m, cs, backend)
        outs.append(res)
        off += n
    return np.concatenate(outs, axis=0)


PREDICATES = {}
