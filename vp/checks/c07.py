"""C07 - simulations compose in time."""
from __future__ import annotations

import numpy as np
from hypothesis import strategies as st

from vp.gen.morph import fl
from vp import core
from vp.gen import morph as gm
from vp.gen import net as gn
from vp.ref import mech as R2

ID = "C07"
RULE = (
    "Hypothesis draws a model (cell or network with channels and 0-4 synapses), stimuli of n = 2..16 samples supplied with "
    "data_stimulate, a (solver, backend) pair, an ordered split of the n steps into 2 or 3 segments (each >= 1) and a "
    "checkpoint layout per run (none, product = steps, product > steps). Every state of every compartment and synapse is "
    "recorded. Oracles: (1) running the segments one after the other with return_states=True / all_states= gives, "
    "concatenated, the one-shot recordings; (2) stepping manually with build_init_and_step_fn gives the one-shot "
    "recordings; (3) the states returned with return_states=True equal the last returned column; (4) after the first "
    "segment a geometric or electrical parameter of one compartment is changed with set() and the run is continued with "
    "all_states=: the module that was simulated before and a freshly built module with the same tables must agree. Non-trivial: every "
    "segment >= 2 steps with a stimulus that is non-zero in each; distinct = hash(structure, split, layouts)."
)
ASSUMPTIONS = [
    "float64, CPU; tolerance 1e-10*max(1,|x|) between compiled runs (same arithmetic, different call structure); eager manual stepping vs the compiled scan: (1e-9*max|x| + 1e-8)*(k+1) at column k (rounding amplified by the secant conductance step)",
    "stimuli are supplied with data_stimulate per segment (a stored stimulus always restarts at sample 0)",
    "in 60% of the cases an initial state (v or a gate) is trainable or data_set and passed to every call; the continued run must "
    "start from the returned states, not from the trainable value (integrate docstring: all_states overrides trainable initial states)",
    "fixed finding F6 (prod(checkpoint_lengths) > steps returned the states after prod-many steps): such layouts are judged like "
    "every other one, including the continuation from the returned states",
]
TECHNIQUE = "property-based testing (Hypothesis): differential one-shot vs split runs vs manual stepping; returned-state invariant"
LEVEL_TEXT = (
    "Generated models, splits and checkpoint layouts; split runs and manual stepping are compared with the one-shot run, and the "
    "returned state dictionary with the last recorded column of every state."
)


def budget(tier):
    return 6 if tier == "quick" else 100


def wall_guard(tier):
    return 1500 if tier == "quick" else 7200


@st.composite
def _ckpt(draw, n):
    mode = draw(st.sampled_from(["none", "none", "eq", "gt", "gt"]))
    if mode == "none":
        return None
    if mode == "eq":
        for a in (4, 3, 2):
            if n % a == 0 and draw(st.booleans()):
                return [a, n // a]
        return [n]
    a = draw(st.integers(1, 3))
    b = -(-n // a) + draw(st.integers(0, 2))
    lay = [a, max(1, b)]
    if int(np.prod(lay)) <= n:
        lay[1] += 1
    return lay


@st.composite
def _spec(draw, tier):
    kind = draw(st.sampled_from(["cell", "cell", "network"]))
    morph = draw(gm.morphology(tier, kinds=(kind,), max_branches=3, max_ncomp=3, max_cells=3, ranges=gm.RANGES_DYN))
    N = gm.n_compartments(morph["cells"])
    morph["v"] = [draw(fl(-75.0, -50.0)) for _ in range(N)]
    chans = draw(gn.channel_placement(N, mechs=("HH", "HH", "Leak", "Na", "K", "Km", "CaL", "CaT"), max_ch=2, allow_rename=False))
    edges = draw(gn.edge_list(N, max_edges=4, min_edges=0)) if kind == "network" and N >= 2 else []
    n = draw(st.integers(2, 16)) if draw(st.integers(0, 3)) == 0 else draw(st.integers(4, 16))
    stim = draw(gn.stimuli(N, n, max_stim=1, min_stim=0))
    # one stimulus that is non-zero in every segment
    stim.append({"row": draw(st.integers(0, N - 1)), "samples": [draw(fl(0.05, 1.0)) for _ in range(n)]})
    nseg = draw(st.integers(2, 3)) if n >= 3 else 2
    cuts = sorted(draw(st.sets(st.integers(1, n - 1), min_size=nseg - 1, max_size=nseg - 1)))
    segs = [b - a for a, b in zip([0] + cuts, cuts + [n])]
    init = {"mode": draw(st.sampled_from(["none", "none", "trainable_v", "trainable_gate", "data_set_v"])),
            "rows": sorted(draw(st.sets(st.integers(0, N - 1), min_size=1, max_size=2))), "val": draw(fl(-70.0, -45.0)), "gval": draw(fl(0.1, 0.9))}
    return {"morph": morph, "channels": chans, "edges": edges, "stim": stim, "nsteps": n, "segments": segs, "init": init,
            "ckpt_full": draw(_ckpt(n)), "ckpt_segs": [draw(_ckpt(s)) for s in segs],
            "dt": draw(st.sampled_from([0.025, 0.05])), "solver": draw(st.sampled_from(["bwd_euler", "bwd_euler", "crank_nicolson", "fwd_euler"])),
            "backend": draw(st.sampled_from(gn.BACKENDS))}


def strategy(tier):
    return _spec(tier)


def size(spec):
    return (gm.n_compartments(spec["morph"]["cells"]), len(spec["edges"]), spec["nsteps"], core.spec_size(spec))


def record_everything(m, spec):
    """Record every state of every compartment and synapse; returns the list (state, index)."""
    m.record("v", verbose=False)
    for c in spec["channels"]:
        pre = c["name"] or c["mech"]
        for g in R2.CHANNELS[c["mech"]]["states"]:
            gn.view_of(m, c["rows"]).record(f"{pre}_{g}", verbose=False)
        gn.view_of(m, c["rows"]).record(R2.CHANNELS[c["mech"]]["current_name"].format(name=pre), verbose=False)
    types = sorted({e["type"] for e in spec["edges"]})
    for t in types:
        ids = [i for i, e in enumerate(spec["edges"]) if e["type"] == t]
        for g in R2.SYNAPSES[t]["states"]:
            m.select(edges=ids).record(f"{t}_{g}", verbose=False)
        m.select(edges=ids).record(f"i_{t}", verbose=False)
    return [(s, int(i)) for i, s in zip(m.recordings["rec_index"], m.recordings["state"])]


def judge(spec, tier="quick"):
    import jax.numpy as jnp
    import jaxley as jx
    from jaxley.integrate import build_init_and_step_fn

    out = core.Outcome()
    n = int(spec["nsteps"])
    dt = float(spec["dt"])
    if spec["solver"] == "fwd_euler" and (any(len(c["parents"]) > 1 for c in spec["morph"]["cells"]) or spec["backend"] == "jax.sparse"):
        spec = dict(spec, solver="bwd_euler")
    kw = dict(delta_t=dt, solver=spec["solver"], voltage_solver=spec["backend"])
    m, err = core.call(lambda: gn.build_model(spec, with_stim=False))
    if err:
        out.internal_crashes.append(f"build:{err.etype}@{err.frame}")
        out.notes.append(err.short()[:100])
        return out
    recs = record_everything(m, spec)
    N = len(m.nodes)
    # optional trainable / data_set initial state, passed to EVERY call (the docstring of integrate says
    # that `all_states` overrides trainable initial states)
    init = spec.get("init", {"mode": "none"})
    params, pstate = [], None
    if init["mode"] == "trainable_v":
        gn.view_of(m, init["rows"]).make_trainable("v", verbose=False)
        params = [{"v": jnp.asarray([float(init["val"])] * len(m.get_parameters()[0]["v"]))}]
    elif init["mode"] == "trainable_gate" and spec["channels"] and R2.CHANNELS[spec["channels"][0]["mech"]]["states"]:
        c0 = spec["channels"][0]
        key = f"{c0['name'] or c0['mech']}_{list(R2.CHANNELS[c0['mech']]['states'])[0]}"
        gn.view_of(m, c0["rows"][:1]).make_trainable(key, verbose=False)
        params = [{key: jnp.asarray([float(init["gval"])])}]
    elif init["mode"] == "data_set_v":
        pstate = gn.view_of(m, init["rows"]).data_set("v", float(init["val"]), None)
    kw.update(params=params, param_state=pstate)
    out.classes.append("init:" + init["mode"])

    def stimuli(a, b):
        ds = None
        for s in spec["stim"]:
            ds = gn.view_of(m, [s["row"]]).data_stimulate(jnp.asarray(np.asarray(s["samples"][a:b], float)), ds)
        return ds

    def ck(layout):
        return {} if layout is None else {"checkpoint_lengths": [int(x) for x in layout]}

    full, err = core.call(lambda: np.asarray(jx.integrate(m, data_stimuli=stimuli(0, n), **kw), float))
    if err and spec["backend"] != "jax.sparse" and "solver_utils" in err.frame:
        out.refusals.append(f"{spec['backend']}:{err.etype}@{err.frame}")
        kw["voltage_solver"] = "jax.sparse"
        full, err = core.call(lambda: np.asarray(jx.integrate(m, data_stimuli=stimuli(0, n), **kw), float))
    if err:
        out.violate("raises", f"one-shot integrate raised {err.short()}", etype=err.etype, frame=err.frame)
        return out
    if full.shape != (len(recs), n + 1):
        out.violate("shape", f"one-shot run returned {full.shape}, expected {(len(recs), n + 1)}")
        return out
    if not np.isfinite(full).all() or np.max(np.abs(full[:N])) > 300:
        out.filtered += 1
        return out
    sc = max(1.0, float(np.max(np.abs(full))))
    tol = 1e-10 * sc
    skey = core.h([spec["morph"]["cells"], [(e["pre"], e["post"], e["type"]) for e in spec["edges"]], spec["solver"], kw["voltage_solver"]])
    segs = spec["segments"]
    stim_nonzero = all(any(any(x != 0 for x in s["samples"][a:a + L]) for s in spec["stim"])
                       for a, L in zip(np.cumsum([0] + segs[:-1]), segs))
    if min(segs) >= 2 and stim_nonzero:
        out.nontrivial_keys.append(f"{skey}|{segs}|{spec['ckpt_full']}|{spec['ckpt_segs']}")
    out.classes.append(f"{len(segs)} segments")
    # (3) returned states of the one-shot run (with its own checkpoint layout)
    lay = spec["ckpt_full"]
    res, err = core.call(lambda: jx.integrate(m, data_stimuli=stimuli(0, n), return_states=True, **ck(lay), **kw))
    if err:
        out.violate("raises", f"integrate(return_states=True, checkpoint_lengths={lay}) raised {err.short()}", etype=err.etype, frame=err.frame)
        return out
    rec2, states = np.asarray(res[0], float), res[1]
    out.evals += 1
    out.classes.append("ckpt none" if lay is None else ("ckpt prod>steps" if int(np.prod(lay)) > n else "ckpt prod=steps"))
    if rec2.shape != full.shape or not np.allclose(rec2, full, rtol=0, atol=tol):
        out.violate("checkpoint-recordings", f"checkpoint_lengths={lay}: recordings differ from the plain run by "
                    f"{np.max(np.abs(rec2 - full)) if rec2.shape == full.shape else rec2.shape}")
        return out
    over = lay is not None and int(np.prod(lay)) > n
    bad = _returned_state_mismatch(states, recs, full[:, -1], spec, tol)
    out.evals += 1
    if bad:
        out.violate("returned-states", f"return_states=True with checkpoint_lengths={lay}, {n} steps: returned {bad[0]} = {bad[1]!r} but the last "
                    f"returned time point has {bad[2]!r}", ckpt_over=bool(over))
        return out
    # (1) split runs
    a = 0
    parts = []
    st_ = None
    f6_hit = False
    for L, lay in zip(segs, spec["ckpt_segs"]):
        res, err = core.call(lambda: jx.integrate(m, data_stimuli=stimuli(a, a + L), all_states=st_, return_states=True, **ck(lay), **kw))
        if err:
            out.violate("raises", f"segment [{a},{a + L}) with checkpoint_lengths={lay} raised {err.short()}", etype=err.etype, frame=err.frame)
            return out
        parts.append(np.asarray(res[0], float))
        st_ = res[1]
        a += L
    if not f6_hit:
        # the continued run starts from the returned state: its column 0 equals the previous segment's last
        # column for EVERY recorded quantity (voltages, gates, synaptic states, membrane and synaptic currents)
        for j in range(1, len(parts)):
            out.evals += 1
            if not np.allclose(parts[j][:, 0], parts[j - 1][:, -1], rtol=0, atol=tol, equal_nan=True):
                r = int(np.argmax(np.abs(parts[j][:, 0] - parts[j - 1][:, -1])))
                out.violate("junction", f"segment {j + 1} of {segs} does not start from the state returned by segment {j}: recording {recs[r]} is "
                            f"{parts[j - 1][r, -1]!r} at the end of the previous run and {parts[j][r, 0]!r} in column 0 of the continued run")
                return out
        cat = np.concatenate([parts[0]] + [p[:, 1:] for p in parts[1:]], axis=1)
        out.evals += 1
        if cat.shape != full.shape or not np.allclose(cat, full, rtol=0, atol=tol):
            k = int(np.argmax((np.abs(cat - full) > tol).any(axis=0))) if cat.shape == full.shape else -1
            out.violate("split", f"segments {segs} (checkpoint layouts {spec['ckpt_segs']}) concatenated differ from the one-shot run, first at "
                        f"column {k}: max diff {np.max(np.abs(cat - full)) if cat.shape == full.shape else cat.shape}")
            return out
    else:
        out.notes.append("split continuation skipped after a prod>steps segment (F6 region)")
    # (2) manual stepping
    def manual():
        init_fn, step_fn = build_init_and_step_fn(m, voltage_solver=kw["voltage_solver"], solver=spec["solver"])
        states, params = init_fn(kw["params"], None, kw["param_state"], dt)
        ds = stimuli(0, n)
        ext = {"i": jnp.asarray(ds[1])}
        inds = {"i": jnp.asarray(ds[2].index.to_numpy())}
        cols = [[float(np.asarray(states[s])[_idx(m, s, i)]) for s, i in recs]]
        for k in range(n):
            states = step_fn(states, params, {"i": ext["i"][:, k]}, inds, dt)
            cols.append([float(np.asarray(states[s])[_idx(m, s, i)]) for s, i in recs])
        return np.asarray(cols).T

    man, err = core.call(manual)
    if err:
        out.violate("raises", f"manual stepping with build_init_and_step_fn raised {err.short()}", etype=err.etype, frame=err.frame)
        return out
    out.evals += 1
    # the manual loop runs step_fn eagerly, integrate runs it inside a compiled scan: the two programs round
    # differently, and the library's secant conductance (i(v+d)-i(v))/d amplifies that by 1/d (d = 1e-3 today;
    # 8.6e-9 mV at column 1 was measured with d = 1e-4). Same bound as in C01, growing linearly with the step count.
    tol_eager = (1e-9 * sc + 1e-8) * (1.0 + np.arange(full.shape[1]))[None, :]
    if man.shape != full.shape or not (np.abs(man - full) <= tol_eager).all():
        k = int(np.argmax((np.abs(man - full) > tol_eager).any(axis=0))) if man.shape == full.shape else -1
        out.violate("manual-stepping", f"manual stepping differs from integrate, first at column {k}: max diff {float(np.max(np.abs(man - full))) if man.shape == full.shape else -1.0:.3e} (shapes {man.shape} / {full.shape})")
        return out
    # (4) an edit between two segments: the continuation simulates the tables as they are NOW. The same module after
    # set() and a freshly built module with that value, both continued from the same returned states, must agree.
    if len(segs) >= 2 and not f6_hit and init["mode"] == "none":
        L0 = int(segs[0])
        res, err = core.call(lambda: jx.integrate(m, data_stimuli=stimuli(0, L0), return_states=True, **kw))
        if err:
            out.violate("raises", f"first segment before the edit raised {err.short()}", etype=err.etype, frame=err.frame)
            return out
        states0 = res[1]
        key = ["capacitance", "radius", "length", "axial_resistivity"][(n + L0) % 4]
        row = (n * 7 + L0) % N
        newval = float(m.nodes.loc[row, key]) * 1.5

        def edit(mod):
            (gn.view_of(mod, [row]) if N > 1 else mod).set(key, newval)

        def cont(mod):
            ds = None
            for s_ in spec["stim"]:
                ds = gn.view_of(mod, [s_["row"]]).data_stimulate(jnp.asarray(np.asarray(s_["samples"][L0:n], float)), ds)
            return np.asarray(jx.integrate(mod, data_stimuli=ds, all_states=states0, **kw), float)

        edit(m)
        segA, e1 = core.call(cont, m)
        m2 = gn.build_model(spec, with_stim=False)
        record_everything(m2, spec)
        edit(m2)
        segB, e2 = core.call(cont, m2)
        if e1 or e2:
            e = e1 or e2
            out.violate("raises", f"continuation after set({key}) raised {e.short()}", etype=e.etype, frame=e.frame)
            return out
        out.evals += 1
        out.classes.append("edit between segments")
        if segA.shape != segB.shape or not np.allclose(segA, segB, rtol=0, atol=tol, equal_nan=True):
            out.violate("edit-between-segments", f"after {L0} steps, set({key!r}, {newval}) on compartment {row}, then integrate(all_states=...): the module that was "
                        f"simulated before differs from a freshly built module with the same tables by {float(np.max(np.abs(segA - segB))) if segA.shape == segB.shape else -1.0:.3e}")
    return out


def _idx(m, state, i):
    """Position of global index i inside the simulated array of `state` (per-type arrays for synaptic states)."""
    if state in m.synapse_state_names or state in m.synapse_current_names:
        t = state[2:] if state in m.synapse_current_names else state.rsplit("_", 1)[0]
        ids = m.edges.index[m.edges["type"] == t].to_numpy()
        return int(np.flatnonzero(ids == i)[0])
    return int(i)


def _returned_state_mismatch(states, recs, last_col, spec, tol):
    import jaxley  # noqa: F401

    for k, (s, i) in enumerate(recs):
        arr = np.asarray(states[s], float)
        types = [e["type"] for e in spec["edges"]]
        if (s.split("_")[0] in types or s[2:] in types) and s not in ("v",):
            t = s[2:] if s[2:] in types else s.rsplit("_", 1)[0]
            ids = [j for j, e in enumerate(spec["edges"]) if e["type"] == t]
            pos = ids.index(i)
        else:
            pos = i
        if not abs(arr[pos] - last_col[k]) <= tol:
            return (f"{s}[{i}]", float(arr[pos]), float(last_col[k]))
    return None


def _f6(spec, v):
    return v.get("clause") == "returned-states" and v.get("ckpt_over") is True


PREDICATES = {"returned_states_when_checkpoint_product_exceeds_steps": _f6}
