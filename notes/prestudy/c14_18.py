import sys; sys.path.insert(0,'/tmp/scratch/exp')
import warnings; warnings.filterwarnings('ignore')
from ref import *
import pickle, copy
from jaxley.channels import HH, Na, K, Km, CaL, CaT
from jaxley.synapses import IonotropicSynapse
from jaxley.connect import connect
rng=np.random.default_rng(8)
comp=jx.Compartment()
def mk(parents,ncs): return jx.Cell([jx.Branch(comp,ncomp=n) for n in ncs],parents=parents)
print('--- C14')
c=mk([-1,0,0],[2,3,1]); N=6
c.branch([0,1]).insert(HH()); c.branch(1).insert(Km()); c.branch([1,2]).insert(CaT()); c.branch(0).comp(1).insert(Na()); c.branch(2).insert(K(name='Kfast'))
c.set('v', rng.uniform(-120,60,N)); c.set('vt', -55.0)
c.branch(1).set('Km_taumax', [1000.,2000.,3000.]); 
before=c.nodes.copy()
c.init_states()
after=c.nodes
gates=[s for ch in c.channels for s in ch.channel_states]
print('gates', gates)
changed=[col for col in after.columns if not before[col].equals(after[col])]
print('changed cols', changed)
print('nan pattern preserved', all((before[g].isna()==after[g].isna()).all() for g in gates))
# fixed point
worst=0
for ch in c.channels:
    rows=after.index[after[ch._name].astype(bool)].to_numpy()
    st={k: jnp.asarray(after.loc[rows,k].to_numpy(float)) for k in ch.channel_states}
    pr={k: jnp.asarray(after.loc[rows,k].to_numpy(float)) for k in ch.channel_params}
    v=jnp.asarray(after.loc[rows,'v'].to_numpy(float))
    for dt in [1e-3,0.025,1.0,1e3]:
        new=ch.update_states(st, dt, v, pr)
        for k in new: worst=max(worst, float(jnp.max(jnp.abs(new[k]-st[k]))))
print('max gate drift over dts', worst)
print('--- C18 independence')
net=jx.Network([mk([-1,0],[2,1]), jx.read_swc('/repo/tests/swc_files/morph_minimal.swc', ncomp=1)])
net.insert(HH()); connect(net[0,0,0], net[1,1,0], IonotropicSynapse()); net.cell(0).add_to_group('g'); net.cell(0).branch(0).make_trainable('radius', verbose=False)
net[0,0,0].stimulate(jnp.ones(5)*0.2, verbose=False); net[1,0,0].record('v', verbose=False)
def snap(m): return (m.nodes.copy(), m.edges.copy(), {k:np.asarray(v).copy() for k,v in m.groups.items()}, [np.asarray(list(d.values())[0]).copy() for d in m.trainable_params], m.recordings.copy(), {k:np.asarray(v).copy() for k,v in m.externals.items()}, [x.copy() for x in m.xyzr])
def same(a,b): return a[0].equals(b[0]) and a[1].equals(b[1]) and all(np.array_equal(a[2][k],b[2][k]) for k in a[2]) and all(np.array_equal(x,y) for x,y in zip(a[3],b[3])) and a[4].equals(b[4]) and all(np.array_equal(a[5][k],b[5][k]) for k in a[5]) and all(np.array_equal(x,y,equal_nan=True) for x,y in zip(a[6],b[6]))
s0=snap(net)
for name,cp in [('pickle',pickle.loads(pickle.dumps(net))),('deepcopy',copy.deepcopy(net))]:
    print(name,'equal', same(s0,snap(cp)))
    cp.cell(1).set('radius', 9.0); cp.cell(0).add_to_group('g2'); cp.delete_recordings(); cp.cell(1).move(10,10,10); cp.set('IonotropicSynapse_gS', 0.5); cp.delete_stimuli(); cp.delete_trainables()
    print(name,'original untouched', same(s0,snap(net)))
