#!/bin/sh
# run every thorough tier once, sequentially (hours): tools/thorough_all.sh [seed]
SEED=${1:-1}
for id in C03 C04 C17 C20 C16 C11 C14 C01 C02 C19 C10 C08 C09 C12 C13 C18 C06 C07 C05 C15; do
  s=$(date +%s)
  VERIF_SEED=$SEED /venv/bin/python -m vp.run $id --tier thorough > thorough_$id.log 2>&1
  rc=$?
  echo "$id rc=$rc $(( $(date +%s) - s ))s $(grep -c '^VIOLATION' thorough_$id.log) violations; $(grep '^\[' thorough_$id.log | tail -1 | cut -c1-170)"
done
