import sys, time; sys.path.insert(0,'/tmp/scratch/exp')
import warnings; warnings.filterwarnings('ignore')
from ref import *
import jax
from jax import jit, vmap, grad
from jaxley.channels import HH
rng = np.random.default_rng(0)
cell = build_cell([-1,0,0],[2,3,1], rng)
cell.insert(HH())
cell.branch(0).comp(0).stimulate(jx.step_current(0.0,0.5,0.5,0.025,0.5), verbose=False)
cell.delete_recordings(); cell.branch(2).comp(0).record('v', verbose=False); cell.branch(1).comp(2).record('HH_m', verbose=False)
cell.branch('all').make_trainable('radius', verbose=False)
cell.make_trainable('HH_gNa', verbose=False)
cell.branch(1).comp('all').make_trainable('v', verbose=False)
params = cell.get_parameters()
print(params)
for vs in ['jaxley.stone','jaxley.thomas','jax.sparse']:
  for ck in [None,[3,7]]:
    def loss(p):
        r = jx.integrate(cell, params=p, voltage_solver=vs, checkpoint_lengths=ck)
        return jnp.sum(r[0]**2)*1e-3 + jnp.sum(r[1])
    t=time.time()
    try:
        g = grad(loss)(params)
    except Exception as ex:
        print(vs, ck, 'ERR', type(ex).__name__, str(ex)[:200]); continue
    # FD on first radius
    import copy
    def fd(i, k, j, h):
        pp = [dict(d) for d in params]; pm=[dict(d) for d in params]
        pp[i][k]=pp[i][k].at[j].add(h); pm[i][k]=pm[i][k].at[j].add(-h)
        return (loss(pp)-loss(pm))/(2*h)
    print(vs, ck, 'time', round(time.time()-t,2), float(g[0]['radius'][1]), float(fd(0,'radius',1,1e-5)), '|', float(g[1]['HH_gNa'][0]), float(fd(1,'HH_gNa',0,1e-6)), '|', float(g[2]['v'][1]), float(fd(2,'v',1,1e-5)))
# vmap data_set
def sim(g):
    ps = cell.data_set('HH_gNa', g, None)
    return jx.integrate(cell, params=params, param_state=ps)
out = vmap(sim)(jnp.asarray([0.1,0.12,0.2]))
out2 = jnp.stack([sim(g) for g in [0.1,0.12,0.2]])
out3 = jit(vmap(sim))(jnp.asarray([0.1,0.12,0.2]))
print('vmap diff', float(jnp.abs(out-out2).max()), float(jnp.abs(out3-out2).max()))
