"""C20 - connectivity builders create exactly the requested connections."""
from __future__ import annotations

import numpy as np
from hypothesis import strategies as st

from vp.gen.morph import fl

from vp import core
from vp.gen import morph as gm

ID = "C20"
RULE = (
    "Hypothesis draws a network of 2-7 cells with different branch/compartment counts, 1-2 builder calls "
    "(fully_connect / sparse_connect / connectivity_matrix_connect) with drawn pre and post cell subsets "
    "(disjoint, overlapping, equal, n_pre != n_post), boolean matrices incl. single-True, p in [0,1] incl. 0, 1 "
    "and values with n*p ~ 1, a NumPy seed (the builders consume NumPy's global RNG) and a synapse type. One "
    "oracle evaluation per builder call: the new rows of .edges are mapped to cells through .nodes. "
    "Non-trivial: n_pre != n_post, or exactly 0 or 1 connection drawn, or cells of different size; "
    "distinct = hash(cell sizes, builder, pre, post, matrix/p, seed)."
)
ASSUMPTIONS = [
    "sparse_connect: the number of sampled connections is only bounded (0..n_pre*n_post, exactly 0 for p=0 and n for p=1), "
    "the library's RNG consumption order is not part of the oracle",
    "an all-False matrix raising inside numpy (np.hstack of nothing) is reported under internal_crashes, not as a violation "
    "(the property does not say the call must succeed for an empty request)",
]
TECHNIQUE = "property-based testing (Hypothesis): generated populations/matrices/seeds, set-model oracle on the edge table"
LEVEL_TEXT = (
    "Generated populations, matrices, probabilities and seeds; the multiset of (pre cell, post cell) pairs and the "
    "pre/post sites in .edges are compared with the requested connectivity. Search over inputs and RNG outcomes, not proof."
)
SYN = ["IonotropicSynapse", "TestSynapse", "TanhRateSynapse"]


def budget(tier):
    return 60 if tier == "quick" else 800


@st.composite
def _call(draw, ncells):
    builder = draw(st.sampled_from(["fully", "sparse", "matrix"]))
    idx = list(range(ncells))
    pre = sorted(draw(st.sets(st.sampled_from(idx), min_size=1)))
    post = sorted(draw(st.sets(st.sampled_from(idx), min_size=1)))
    c = {"builder": builder, "pre": pre, "post": post, "syn": draw(st.sampled_from(SYN)),
         "np_seed": draw(st.integers(0, 2**31 - 1))}
    n = len(pre) * len(post)
    if builder == "sparse":
        c["p"] = draw(st.one_of(st.sampled_from([0.0, 1.0, 0.5]), fl(0.0, 1.0),
                                fl(0.2, 3.0).map(lambda x: min(1.0, x / n))))
    if builder == "matrix":
        mode = draw(st.sampled_from(["free", "free", "single", "all"]))
        if mode == "single":
            i, j = draw(st.integers(0, len(pre) - 1)), draw(st.integers(0, len(post) - 1))
            mat = [[bool(a == i and b == j) for b in range(len(post))] for a in range(len(pre))]
        elif mode == "all":
            mat = [[True] * len(post) for _ in pre]
        else:
            mat = [[draw(st.booleans()) for _ in post] for _ in pre]
        c["matrix"] = mat
    return c


@st.composite
def _spec(draw, tier):
    nc = draw(st.integers(2, 5 if tier == "quick" else 7))
    same = draw(st.sampled_from([False, False, True]))
    if same:
        one = draw(gm.cell_struct(3, 3))
        cells = [one] * nc
    else:
        cells = [draw(gm.cell_struct(3, 3)) for _ in range(nc)]
    calls = [draw(_call(nc)) for _ in range(draw(st.integers(1, 2)))]
    return {"cells": cells, "calls": calls}


def strategy(tier):
    return _spec(tier)


def size(spec):
    return (len(spec["cells"]), len(spec["calls"]), core.spec_size(spec))


def _do_call(net, c):
    import importlib

    import jaxley.synapses as js

    jc = importlib.import_module("jaxley.connect")

    syn = getattr(js, c["syn"])()
    pre = net.cell(list(c["pre"]))
    post = net.cell(list(c["post"]))
    np.random.seed(int(c["np_seed"]))
    if c["builder"] == "fully":
        jc.fully_connect(pre, post, syn)
    elif c["builder"] == "sparse":
        jc.sparse_connect(pre, post, syn, p=float(c["p"]))
    else:
        jc.connectivity_matrix_connect(pre, post, syn, np.asarray(c["matrix"], dtype=bool))


def judge(spec, tier="quick"):
    import jaxley as jx
    from vp.build import build_cell

    out = core.Outcome()
    net, err = core.call(lambda: jx.Network([build_cell(c) for c in spec["cells"]]))
    if err:
        out.internal_crashes.append(f"Network():{err.etype}@{err.frame}")
        return out
    sizes = [sum(c["ncomp"]) for c in spec["cells"]]
    first_comp = np.concatenate([[0], np.cumsum(sizes)])[:-1]
    comp_cell = np.repeat(np.arange(len(sizes)), sizes)
    for ci, c in enumerate(spec["calls"]):
        before = len(net.edges)
        _, err = core.call(_do_call, net, c)
        npre, npost = len(c["pre"]), len(c["post"])
        requested_empty = c["builder"] == "matrix" and not np.any(c["matrix"])
        if err:
            if requested_empty and not err.raised_in_jaxley:
                out.internal_crashes.append(f"matrix all-False:{err.etype}@{err.frame}")
                break
            if c["builder"] == "sparse":
                out.violate("sparse-raises", f"sparse_connect(p={c['p']}, seed={c['np_seed']}, n_pre={npre}, n_post={npost}) raised {err.short()}",
                            etype=err.etype, frame=err.frame)
            else:
                out.violate("builder-raises", f"{c['builder']} raised {err.short()}", etype=err.etype, frame=err.frame)
            break
        edges = net.edges
        new = edges.iloc[before:]
        out.evals += 1
        if list(edges["global_edge_index"]) != list(range(len(edges))):
            out.violate("edge-index", f"global_edge_index not contiguous: {list(edges['global_edge_index'])}")
        prec = new["pre_global_comp_index"].to_numpy().astype(int)
        postc = new["post_global_comp_index"].to_numpy().astype(int)
        if len(new) and (prec.min() < 0 or postc.min() < 0 or prec.max() >= len(comp_cell) or postc.max() >= len(comp_cell)):
            out.violate("site", f"edge endpoints outside the module: pre={prec.tolist()} post={postc.tolist()}")
            break
        pairs = sorted(zip(comp_cell[prec].tolist(), comp_cell[postc].tolist()))
        if (new["type"] != c["syn"]).any():
            out.violate("type", f"new edges have types {sorted(set(new['type']))}, requested {c['syn']}")
        # pre site: first compartment of the first branch of the pre cell
        bad_pre = [int(p) for p in prec if p != first_comp[comp_cell[p]]]
        if bad_pre:
            out.violate("pre-site", f"{c['builder']}: presynaptic compartments {bad_pre} are not the first compartment of their cell")
        n = npre * npost
        if c["builder"] == "fully":
            want = sorted((a, b) for a in c["pre"] for b in c["post"])
            if pairs != want:
                out.violate("fully-pairs", f"fully_connect(pre={c['pre']}, post={c['post']}) created pairs {pairs}, expected each of {want} once")
        elif c["builder"] == "matrix":
            want = sorted((c["pre"][i], c["post"][j]) for i in range(npre) for j in range(npost) if c["matrix"][i][j])
            if pairs != want:
                out.violate("matrix-pairs", f"connectivity_matrix_connect(pre={c['pre']}, post={c['post']}, M={c['matrix']}) created {pairs}, expected {want}")
        else:
            allowed = set((a, b) for a in c["pre"] for b in c["post"])
            bad = [p for p in pairs if p not in allowed]
            if bad:
                out.violate("sparse-pairs", f"sparse_connect created pairs {bad} outside pre x post (pre={c['pre']}, post={c['post']})")
            p = float(c["p"])
            if (p == 0.0 and len(new) != 0) or (p == 1.0 and len(new) != n) or len(new) > n:
                out.violate("sparse-count", f"sparse_connect(p={p}) created {len(new)} synapses for {n} candidate pairs")
        drawn01 = c["builder"] == "sparse" and len(new) in (0, 1)
        diffsize = len(set(sizes)) > 1
        if npre != npost or drawn01 or diffsize:
            out.nontrivial_keys.append(core.h([sizes, c]))
        out.classes.append(c["builder"])
        if npre != npost:
            out.classes.append("n_pre!=n_post")
        if drawn01:
            out.classes.append(f"sparse drew {len(new)}")
        if c["builder"] == "matrix" and int(np.sum(c["matrix"])) <= 1:
            out.classes.append(f"matrix with {int(np.sum(c['matrix']))} True")
    return out


PREDICATES = {}
