import sys; sys.path.insert(0,'/tmp/scratch/exp')
import warnings; warnings.filterwarnings('ignore')
from ref import *
from jaxley.utils.cell_utils import params_to_pstate
from jaxley.channels import HH
from jaxley.synapses import IonotropicSynapse, TestSynapse
from jaxley.connect import connect
import copy
rng=np.random.default_rng(2)
def arrays(m, params=None, pstate=None):
    m.to_jax()
    ps = params_to_pstate(params if params is not None else [], m.indices_set_by_trainables)
    if pstate: ps += pstate
    P = m.get_all_parameters(ps, 'jax.sparse'); S = m.get_all_states(ps, P, 0.025)
    return {k:np.asarray(v) for k,v in {**P, **S}.items()}
comp=jx.Compartment()
def mk(parents,ncs): 
    c=jx.Cell([jx.Branch(comp,ncomp=n) for n in ncs],parents=parents); return c
net=jx.Network([mk([-1,0,0],[3,1,2]), mk([-1,0],[1,2])]); net.insert(HH())
connect(net[0,0,0],net[1,0,0],IonotropicSynapse()); connect(net[1,1,0],net[0,2,1],TestSynapse()); connect(net[0,1,0],net[1,1,1],IonotropicSynapse())
base=arrays(net)
cases=[('radius', lambda m: m.cell(0).branch([0,1]), 3.3),
       ('HH_gNa', lambda m: m.cell(1), 0.3),
       ('v', lambda m: m.cell(0).branch(2), -55.0),
       ('HH_m', lambda m: m.cell([0,1]).branch(0).comp(0), 0.77),
       ('IonotropicSynapse_gS', lambda m: m.IonotropicSynapse.edge(1), 0.02),
       ('IonotropicSynapse_s', lambda m: m.select(edges=[0]), 0.9),
       ('TestSynapse_gC', lambda m: m.TestSynapse, 0.05)]
for key, viewf, val in cases:
    a=copy.deepcopy(net); viewf(a).set(key,val); A=arrays(a)
    b=copy.deepcopy(net); ps=viewf(b).data_set(key,val,None); B=arrays(b,pstate=ps)
    c=copy.deepcopy(net); viewf(c).make_trainable(key, verbose=False); p=c.get_parameters(); p=[{k: jnp.full_like(v, val) for k,v in d.items()} for d in p]; C=arrays(c,params=p)
    ok_ab=all(np.allclose(A[k],B[k],equal_nan=True) for k in A if k!='axial_conductances' or True)
    ok_ac=all(np.allclose(A[k],C[k],equal_nan=True) for k in A)
    changed=[k for k in A if not np.allclose(A[k],base[k],equal_nan=True)]
    print(key, 'set==data_set', ok_ab, 'set==trainable', ok_ac, 'changed arrays', changed, 'n trainable', [v.shape for d in c.get_parameters() for v in d.values()])
