import sys; sys.path.insert(0,'/tmp/scratch/exp')
import warnings; warnings.filterwarnings('ignore')
from ref import *
from jaxley.utils.cell_utils import params_to_pstate
from jaxley.synapses import IonotropicSynapse, TestSynapse
from jaxley.connect import connect
print('--- F2')
comp = jx.Compartment()
cell = jx.Cell([jx.Branch(comp, ncomp=n) for n in [3,1,2]], parents=[-1,0,0])
cell.set('radius', np.arange(1.,7.))
cell.branch([0,1]).make_trainable('radius', verbose=False)   # groups of size 3 and 1, last comp (5) not in selection
print(cell.indices_set_by_trainables)
params = cell.get_parameters(); print(params)
cell.to_jax()
ps = params_to_pstate(params, cell.indices_set_by_trainables)
print(cell.get_all_parameters(ps, 'jaxley.thomas')['radius'])

print('--- F5 record synapse state interleaved')
net = jx.Network([jx.Cell() for _ in range(3)])
connect(net.cell(0), net.cell(1), IonotropicSynapse())
connect(net.cell(1), net.cell(2), TestSynapse())
connect(net.cell(2), net.cell(0), IonotropicSynapse())
connect(net.cell(0), net.cell(2), TestSynapse())
net.set('IonotropicSynapse_s', [0.1, 0.3]); net.set('TestSynapse_c', [0.5, 0.7])
print(net.edges[['type','IonotropicSynapse_s','TestSynapse_c']])
net.TestSynapse.edge(0).record('TestSynapse_c')
net.TestSynapse.edge(1).record('TestSynapse_c')
net.IonotropicSynapse.edge(0).record('IonotropicSynapse_s')
net.IonotropicSynapse.edge(1).record('IonotropicSynapse_s')
print(net.recordings)
out = jx.integrate(net, t_max=0.1)
print(out[:,0])
print('--- F6')
cell = jx.Cell(); 
from jaxley.channels import HH
cell.insert(HH()); cell.record('v')
r1, s1 = jx.integrate(cell, t_max=0.225, return_states=True)   
r2, s2 = jx.integrate(cell, t_max=0.225, return_states=True, checkpoint_lengths=[4,4])
print(r1.shape, r2.shape, np.abs(r1-r2).max(), r1[0,-1], s1['v'], s2['v'])
