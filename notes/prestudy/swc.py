import sys; sys.path.insert(0,'/tmp/scratch/exp')
import warnings; warnings.filterwarnings('ignore')
from ref import *
import tempfile, os
from jaxley.io.swc import swc_to_jaxley
def write(rows):
    f = tempfile.NamedTemporaryFile('w', suffix='.swc', delete=False)
    for r in rows: f.write(' '.join(str(x) for x in r)+'\n')
    f.close(); return f.name
def run(rows, **kw):
    fn = write(rows)
    try:
        parents, pl, rf, types, coords = swc_to_jaxley(fn, **kw)
        print('parents', parents, 'len', np.round(pl,3).tolist(), 'types', types)
        cell = jx.read_swc(fn, ncomp=2, **{k:v for k,v in kw.items() if k!='sort'})
        print('  radius', np.round(cell.nodes.radius.to_numpy(),3).tolist(), 'groups', {k:v.tolist() for k,v in cell.groups.items()})
    except Exception as ex:
        import traceback; print('ERR', type(ex).__name__, str(ex)[:120])
    os.unlink(fn)
print('A: 3-point soma, one dendrite with a fork')
run([(1,1,0,0,0,5,-1),(2,1,5,0,0,5,1),(3,1,10,0,0,5,2),(4,3,20,0,0,1,3),(5,3,30,0,0,1,4),(6,3,40,0,0,0.8,5),(7,3,40,10,0,0.6,6),(8,3,40,-10,0,0.5,5),(9,3,40,-20,0,0.4,8)])
print('B: single point soma, two neurites')
run([(1,1,0,0,0,5,-1),(2,3,10,0,0,1,1),(3,3,20,0,0,1,2),(4,2,-10,0,0,1,1),(5,2,-20,0,0,0.5,4)])
print('C: type change without fork')
run([(1,1,0,0,0,5,-1),(2,1,5,0,0,5,1),(3,3,15,0,0,1,2),(4,3,25,0,0,1,3),(5,4,35,0,0,1,4),(6,4,45,0,0,1,5)])
print('D: fork at soma middle point')
run([(1,1,0,0,0,5,-1),(2,1,5,0,0,5,1),(3,1,10,0,0,5,2),(4,3,5,10,0,1,2),(5,3,5,20,0,1,4)])
print('E: trifurcation')
run([(1,1,0,0,0,5,-1),(2,1,5,0,0,5,1),(3,3,15,0,0,1,2),(4,3,25,0,0,1,3),(5,3,35,5,0,1,4),(6,3,45,5,0,1,5),(7,3,35,0,0,1,4),(8,3,45,0,0,1,7),(9,3,35,-5,0,1,4),(10,3,45,-5,0,1,9)])
print('F: single-child chains after fork (1-point branches)')
run([(1,1,0,0,0,5,-1),(2,1,5,0,0,5,1),(3,3,15,0,0,1,2),(4,3,25,5,0,1,3),(5,3,25,-5,0,1,3)])
print('G: max_branch_len')
run([(1,1,0,0,0,5,-1),(2,1,5,0,0,5,1)]+[(i,3,5+10*(i-2),0,0,1,i-1) for i in range(3,13)], max_branch_len=30.0)
