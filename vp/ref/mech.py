"""R2 - reference kinetics of the built-in mechanisms, NumPy float64, written from the
published equations (Hodgkin & Huxley 1952 in the form of NEURON's hh.mod at 6.3 C;
Pospischil et al. 2008, Biol. Cybern. 99:427, appendix; Abbott & Marder 1998 graded
synapse). This module never imports jaxley.

Parameter names are the *unprefixed* names ("gNa", "vt", ...); callers add/remove the
mechanism prefix. Units: mV, ms, S/cm^2, current density mA/cm^2; synapses uS and nA.
"""
from __future__ import annotations

import numpy as np


def x_over_expm1(x):
    """x / (exp(x) - 1) with the removable singularity at 0 filled in (-> 1)."""
    x = np.asarray(x, dtype=np.float64)
    small = np.abs(x) < 1e-7
    xs = np.where(small, 1.0, x)
    with np.errstate(over="ignore", invalid="ignore"):
        big = xs / np.expm1(xs)
    return np.where(small, 1.0 - x / 2.0 + x * x / 12.0, big)


def vtrap(x, y):
    """NEURON's vtrap: x / (exp(x/y) - 1)."""
    return y * x_over_expm1(np.asarray(x, dtype=np.float64) / y)


def _exp(x):
    with np.errstate(over="ignore"):
        return np.exp(np.asarray(x, dtype=np.float64))


def _logistic(x):
    """1 / (1 + exp(-x)) without overflow."""
    x = np.asarray(x, dtype=np.float64)
    with np.errstate(over="ignore"):
        return np.where(x >= 0, 1.0 / (1.0 + np.exp(-x)), np.exp(x) / (1.0 + np.exp(x)))


# ---------------------------------------------------------------------------------------
# gates: each returns ("ab", alpha, beta) or ("inf", x_inf, tau)
# ---------------------------------------------------------------------------------------


def hh_m(v, p):
    return "ab", 0.1 * vtrap(-(v + 40.0), 10.0), 4.0 * _exp(-(v + 65.0) / 18.0)


def hh_h(v, p):
    return "ab", 0.07 * _exp(-(v + 65.0) / 20.0), _logistic((v + 35.0) / 10.0)


def hh_n(v, p):
    return "ab", 0.01 * vtrap(-(v + 55.0), 10.0), 0.125 * _exp(-(v + 65.0) / 80.0)


def na_m(v, p):
    va = v - p["vt"] - 13.0
    vb = v - p["vt"] - 40.0
    # -0.32 va / (exp(-va/4) - 1) ;  0.28 vb / (exp(vb/5) - 1)
    return "ab", 0.32 * 4.0 * x_over_expm1(-va / 4.0), 0.28 * 5.0 * x_over_expm1(vb / 5.0)


def na_h(v, p):
    va = v - p["vt"] - 17.0
    vb = v - p["vt"] - 40.0
    return "ab", 0.128 * _exp(-va / 18.0), 4.0 * _logistic(vb / 5.0)


def k_n(v, p):
    va = v - p["vt"] - 15.0
    vb = v - p["vt"] - 10.0
    return "ab", 0.032 * 5.0 * x_over_expm1(-va / 5.0), 0.5 * _exp(-vb / 40.0)


def km_p(v, p):
    vp = v + 35.0
    return "inf", _logistic(vp / 10.0), p["taumax"] / (3.3 * _exp(vp / 20.0) + _exp(-vp / 20.0))


def cal_q(v, p):
    va = -27.0 - v
    return "ab", 0.055 * 3.8 * x_over_expm1(va / 3.8), 0.94 * _exp((-75.0 - v) / 17.0)


def cal_r(v, p):
    return "ab", 0.000457 * _exp((-13.0 - v) / 50.0), 0.0065 * _logistic(-(-15.0 - v) / 28.0)


def cat_u(v, p, saturate_at=None):
    """u_inf, tau_u of the T current as printed in Pospischil et al. 2008.

    `saturate_at`: if given, both exponentials of tau_u are capped at exp(saturate_at).
    Used only inside the region of the open known finding N6 (the library clips the
    argument of every exponential at 20)."""
    w = v + p["vx"]
    a1 = (w + 113.2) / 5.0
    a2 = (w + 84.0) / 3.2
    if saturate_at is not None:
        a1 = np.minimum(a1, saturate_at)
        a2 = np.minimum(a2, saturate_at)
    with np.errstate(over="ignore", invalid="ignore"):
        tau = (30.8 + (211.4 + _exp(a1))) / (3.7 * (1.0 + _exp(a2)))
    if saturate_at is None:
        # exp(a1)/exp(a2) for large arguments, evaluated without overflow
        big = a2 > 300.0
        tau = np.where(big, _exp(a1 - a2) / 3.7, tau)
    return "inf", _logistic(-(w + 81.0) / 4.0), tau


def cat_s_inf(v, p):
    return _logistic((v + p["vx"] + 57.0) / 6.2)


# ---------------------------------------------------------------------------------------
# currents (mA/cm^2 for channels: S/cm^2 * mV)
# ---------------------------------------------------------------------------------------


def hh_current(s, v, p):
    return (
        p["gNa"] * s["m"] ** 3 * s["h"] * (v - p["eNa"])
        + p["gK"] * s["n"] ** 4 * (v - p["eK"])
        + p["gLeak"] * (v - p["eLeak"])
    )


def leak_current(s, v, p):
    return p["gLeak"] * (v - p["eLeak"])


def na_current(s, v, p):
    return p["gNa"] * s["m"] ** 3 * s["h"] * (v - p["eNa"])


def k_current(s, v, p):
    return p["gK"] * s["n"] ** 4 * (v - p["eK"])


def km_current(s, v, p):
    return p["gKm"] * s["p"] * (v - p["eK"])


def cal_current(s, v, p):
    return p["gCaL"] * s["q"] ** 2 * s["r"] * (v - p["eCa"])


def cat_current(s, v, p):
    return p["gCaT"] * cat_s_inf(v, p) ** 2 * s["u"] * (v - p["eCa"])


# name -> description. `params`: default values (documented defaults of the pinned tree);
# `globals`: parameter names that are NOT prefixed with the mechanism name.
CHANNELS = {
    "HH": dict(
        params=dict(gNa=0.12, gK=0.036, gLeak=0.0003, eNa=50.0, eK=-77.0, eLeak=-54.3),
        globals=[],
        states=dict(m=0.2, h=0.2, n=0.2),
        gates=dict(m=hh_m, h=hh_h, n=hh_n),
        gate_args=dict(m=[], h=[], n=[]),
        current=hh_current,
        current_name="i_HH",
        singular=[-40.0, -55.0],
    ),
    "Leak": dict(
        params=dict(gLeak=1e-4, eLeak=-70.0),
        globals=[],
        states={},
        gates={},
        gate_args={},
        current=leak_current,
        current_name="i_{name}",
        singular=[],
    ),
    "Na": dict(
        params=dict(gNa=50e-3, eNa=50.0, vt=-60.0),
        globals=["eNa", "vt"],
        states=dict(m=0.2, h=0.2),
        gates=dict(m=na_m, h=na_h),
        gate_args=dict(m=["vt"], h=["vt"]),
        current=na_current,
        current_name="i_Na",
        singular=[("vt", 13.0), ("vt", 40.0)],
    ),
    "K": dict(
        params=dict(gK=5e-3, eK=-90.0, vt=-60.0),
        globals=["eK", "vt"],
        states=dict(n=0.2),
        gates=dict(n=k_n),
        gate_args=dict(n=["vt"]),
        current=k_current,
        current_name="i_K",
        singular=[("vt", 15.0)],
    ),
    "Km": dict(
        params=dict(gKm=0.004e-3, taumax=4000.0, eK=-90.0),
        globals=["eK"],
        states=dict(p=0.2),
        gates=dict(p=km_p),
        gate_args=dict(p=["taumax"]),
        current=km_current,
        current_name="i_K",
        singular=[],
    ),
    "CaL": dict(
        params=dict(gCaL=0.1e-3, eCa=120.0),
        globals=["eCa"],
        states=dict(q=0.2, r=0.2),
        gates=dict(q=cal_q, r=cal_r),
        gate_args=dict(q=[], r=[]),
        current=cal_current,
        current_name="i_Ca",
        singular=[-27.0],
    ),
    "CaT": dict(
        params=dict(gCaT=0.4e-4, vx=2.0, eCa=120.0),
        globals=["eCa"],
        states=dict(u=0.2),
        gates=dict(u=cat_u),
        gate_args=dict(u=["vx"]),
        current=cat_current,
        current_name="i_Ca",
        singular=[],
    ),
}


def steady_tau(kind, a, b):
    """(x_inf, tau) from either representation."""
    if kind == "ab":
        with np.errstate(divide="ignore", invalid="ignore"):
            tau = 1.0 / (a + b)
            return a * tau, tau
    return a, b


def exp_update(x, dt, x_inf, tau):
    """Exact solution of dx/dt = (x_inf - x)/tau over dt."""
    with np.errstate(over="ignore", divide="ignore", invalid="ignore"):
        e = np.exp(-dt / tau)
    return x_inf + (x - x_inf) * e


# ---------------------------------------------------------------------------------------
# synapses
# ---------------------------------------------------------------------------------------

V_TH = -35.0
DELTA = 10.0


def graded_sinf(v_pre):
    return _logistic((v_pre - V_TH) / DELTA)


def graded_one_minus_sinf(v_pre):
    """1 - s_inf without cancellation."""
    return _logistic(-(v_pre - V_TH) / DELTA)


SYNAPSES = {
    "IonotropicSynapse": dict(
        params=dict(gS=1e-4, e_syn=0.0, k_minus=0.025), states=dict(s=0.2)
    ),
    "TestSynapse": dict(params=dict(gC=1e-4), states=dict(c=0.2)),
    "TanhRateSynapse": dict(params=dict(gS=1e-4, x_offset=-70.0, slope=1.0), states={}),
}


def syn_update(kind, s, dt, v_pre, p):
    """New synaptic state after dt (Abbott & Marder graded synapse)."""
    if kind == "TanhRateSynapse":
        return {}
    k = p["k_minus"] if kind == "IonotropicSynapse" else 1.0 / 40.0
    sinf = graded_sinf(v_pre)
    with np.errstate(divide="ignore", invalid="ignore"):
        tau = graded_one_minus_sinf(v_pre) / k
    name = "s" if kind == "IonotropicSynapse" else "c"
    return {name: exp_update(s[name], dt, sinf, tau)}


def syn_current(kind, s, v_pre, v_post, p):
    """Synaptic current in nA (conductance uS x mV), sign as the library (outward +)."""
    if kind == "IonotropicSynapse":
        return p["gS"] * s["s"] * (v_post - p["e_syn"])
    if kind == "TestSynapse":
        return p["gC"] * s["c"] * (v_post - 0.0)
    if kind == "TanhRateSynapse":
        return -p["gS"] * np.tanh((v_pre - p["x_offset"]) * p["slope"]) + 0.0 * v_post
    raise KeyError(kind)
