"""Sensitivity self-test (tooling, not a registered check).

Applies each patch in mutants/<ID>_*.patch (or seeded/<ID>/patch.diff with --seeded) to a scratch copy
of /repo's working tree, runs the quick check of the target property against the copy
(VERIF_REPO), expects exit 1 + a VIOLATION line, and removes the copy.

usage: python selftest.py [--only C01] [--tier quick] [--seeded] [--jobs 2]
"""
import argparse, glob, json, os, re, shutil, subprocess, sys, tempfile, time

VERIF = os.path.dirname(os.path.abspath(__file__))
SCRATCH = os.environ.get("VERIF_SCRATCH", "/dev/shm")


def run_one(patch, cid, tier, seed="1", examples=None):
    work = tempfile.mkdtemp(prefix="vp-mut-", dir=SCRATCH)
    try:
        repo = os.path.join(work, "repo")
        os.makedirs(repo)
        subprocess.run(["rsync", "-a", "--exclude", ".git", "--exclude", "docs", "/repo/", repo + "/"], check=True)
        r = subprocess.run(["patch", "-p1", "-s", "-d", repo, "-i", os.path.abspath(patch)], capture_output=True, text=True)
        if r.returncode != 0:
            return {"patch": patch, "status": "PATCH-FAILED", "detail": r.stdout + r.stderr}
        env = dict(os.environ, VERIF_REPO=repo, VERIF_OUT=os.path.join(work, "out"), VERIF_SEED=seed, VERIF_TIER=tier)
        cmd = ["/venv/bin/python", "-m", "vp.run", cid, "--tier", tier]
        if examples:
            cmd += ["--examples", str(examples)]
        t0 = time.time()
        r = subprocess.run(cmd, cwd=VERIF, env=env, capture_output=True, text=True)
        lines = [l for l in r.stdout.splitlines() if l.startswith("VIOLATION") or l.startswith("  violation") or l.startswith("HARNESS")]
        status = "KILLED" if r.returncode == 1 and any(l.startswith("VIOLATION") for l in lines) else ("HARNESS-ERROR" if r.returncode == 2 else "SURVIVED")
        return {"patch": patch, "property": cid, "status": status, "wall": round(time.time() - t0, 1), "detail": lines[:3] if status != "HARNESS-ERROR" else (r.stdout + r.stderr)[-1500:]}
    finally:
        shutil.rmtree(work, ignore_errors=True)


def run_benign(patch, checks, tier="quick", seed="1"):
    """A behaviour-preserving change: every check must stay quiet (exit 0)."""
    work = tempfile.mkdtemp(prefix="vp-benign-", dir=SCRATCH)
    res = []
    try:
        repo = os.path.join(work, "repo")
        os.makedirs(repo)
        subprocess.run(["rsync", "-a", "--exclude", ".git", "--exclude", "docs", "/repo/", repo + "/"], check=True)
        r = subprocess.run(["patch", "-p1", "-s", "-d", repo, "-i", os.path.abspath(patch)], capture_output=True, text=True)
        if r.returncode != 0:
            return [("PATCH-FAILED", r.stdout + r.stderr)]
        for cid in checks:
            env = dict(os.environ, VERIF_REPO=repo, VERIF_OUT=os.path.join(work, "out"), VERIF_SEED=seed, VERIF_TIER=tier)
            r = subprocess.run(["/venv/bin/python", "-m", "vp.run", cid, "--tier", tier], cwd=VERIF, env=env, capture_output=True, text=True)
            lines = [l for l in r.stdout.splitlines() if l.startswith(("VIOLATION", "  violation", "HARNESS"))]
            res.append((cid, r.returncode, lines[:2]))
            print(f"  {os.path.basename(patch)} {cid} exit={r.returncode} {lines[:1]}", flush=True)
        return res
    finally:
        shutil.rmtree(work, ignore_errors=True)


def main():
    if "--benign" in sys.argv:
        checks = [f"C{i:02d}" for i in range(1, 21)]
        if "--checks" in sys.argv:
            checks = sys.argv[sys.argv.index("--checks") + 1].split(",")
        only = sys.argv[sys.argv.index("--only") + 1] if "--only" in sys.argv else ""
        bad = 0
        for p in sorted(glob.glob(os.path.join(VERIF, "benign", "*.patch"))):
            if only and only not in p:
                continue
            res = run_benign(p, checks)
            alarms = [r for r in res if r[1] != 0]
            bad += len(alarms)
            print(f"{'QUIET' if not alarms else 'ALARM'} {os.path.basename(p)} {[(a[0], a[1]) for a in alarms]}", flush=True)
        return 1 if bad else 0
    ap = argparse.ArgumentParser()
    ap.add_argument("--only", default=None)
    ap.add_argument("--tier", default="quick")
    ap.add_argument("--seeded", action="store_true")
    ap.add_argument("--seed", default="1")
    a = ap.parse_args()
    items = []
    if a.seeded:
        for d in sorted(glob.glob(os.path.join(VERIF, "seeded", "*"))):
            if not os.path.exists(os.path.join(d, "meta.json")):
                continue
            meta = json.load(open(os.path.join(d, "meta.json")))
            if meta.get("retired"):
                print(f"RETIRED        {os.path.relpath(d, VERIF)} (see meta.json: retired_reason)", flush=True)
                continue
            # the check that is expected to see the change: the property the author named, unless the confirmation run
            # recorded another one (meta["checked_by"]) because the named property's domain does not contain the trigger
            items.append((os.path.join(d, "patch.diff"), meta.get("checked_by", meta["property"])))
    else:
        for p in sorted(glob.glob(os.path.join(VERIF, "mutants", "*.patch"))):
            cid = re.match(r"(C\d+)", os.path.basename(p)).group(1)
            items.append((p, cid))
    if a.only:
        items = [(p, c) for p, c in items if c == a.only or a.only in p]
    results = []
    for p, c in items:
        res = run_one(p, c, a.tier, a.seed)
        results.append(res)
        print(f"{res['status']:14s} {c} {os.path.relpath(p, VERIF)} {res.get('wall','')}s {res['detail'] if res['status']!='KILLED' else res['detail'][:1]}", flush=True)
    bad = [r for r in results if r["status"] != "KILLED"]
    print(f"{len(results) - len(bad)}/{len(results)} killed")
    return 1 if bad else 0


if __name__ == "__main__":
    sys.exit(main())
