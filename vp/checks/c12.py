"""C12 - assembly preserves constituents; uncoupled parts simulate independently."""
from __future__ import annotations

import numpy as np
from hypothesis import strategies as st

from vp.gen.morph import fl
from vp import core
from vp.gen import morph as gm
from vp.gen import net as gn
from vp.ref import mech as R2

ID = "C12"
MECHS = ["HH", "Leak", "Na", "K", "Km", "CaL"]
RULE = (
    "Hypothesis draws heterogeneous compartments (own geometry, voltage and a drawn set of channels out of HH, Leak, Na, K, Km, "
    "CaL - sharing vt/eK/eCa columns, sometimes a second instance of a class under another name - with own conductances, shared-column values and gate states), assembles them bottom-up "
    "into branches of different lengths, cells of arbitrary tree shape and networks of 1-3 cells, a valid permutation of the "
    "branch order of every cell and a permutation of the cells. Oracles: (1) the assembled .nodes shows every constituent's "
    "parameters, states and channel flags at contiguous global indices, absent channels False/NaN; (2) each cell of a synapse-free "
    "network simulates like the cell alone, a one-branch cell like the branch, a one-compartment branch like the compartment; "
    "(3) re-listing sibling branches / cells in another order permutes rows and recordings and changes nothing else. "
    "Non-trivial: >=2 constituents with different channel sets and different compartment counts; distinct = hash(spec structure)."
)
ASSUMPTIONS = [
    "float64, CPU; simulations compared at 1e-9*max(1,|v|) over 4-10 steps; a backend that refuses is counted and jax.sparse is used",
    "table comparison by value (NaN == NaN), column order and the bookkeeping columns (local_*, controlled_by_param) ignored",
]
TECHNIQUE = "property-based testing (Hypothesis): table model + differential (whole vs parts) + metamorphic (sibling / cell permutations)"
LEVEL_TEXT = (
    "Generated heterogeneous constituents and tree shapes; the assembled table is compared with a model built from the constituents, "
    "parts are simulated alone and compared with the whole, and order permutations must only permute rows and recordings."
)


def budget(tier):
    return 5 if tier == "quick" else 100


def wall_guard(tier):
    return 1500 if tier == "quick" else 7200


@st.composite
def _comp(draw):
    c = {"radius": draw(gm.log_uniform(0.5, 10.0)), "length": draw(gm.log_uniform(5.0, 100.0)),
         "axial_resistivity": draw(gm.log_uniform(100.0, 5000.0)), "capacitance": draw(gm.log_uniform(0.5, 2.0)),
         "v": draw(fl(-75.0, -50.0)), "channels": []}
    picks = draw(st.lists(st.tuples(st.sampled_from(MECHS), st.sampled_from([None, None, None, "b"])), max_size=3, unique=True))
    for mech, suffix in picks:
        table = R2.CHANNELS[mech]
        params = {}
        for k, dflt in table["params"].items():
            if k.startswith("g") and draw(st.booleans()):
                params[k] = draw(gm.log_uniform(dflt * 0.2, dflt * 5))
        states = {g: draw(fl(0.05, 0.95)) for g in table["states"] if draw(st.booleans())}
        # a second instance of a class under another name (Channel(name=...)) is a different channel
        c["channels"].append({"mech": mech, "name": None if suffix is None else mech + suffix, "params": params, "states": states})
    # shared columns get ONE value per compartment (they are one column)
    c["shared"] = {"vt": draw(fl(-65.0, -50.0)), "eK": draw(fl(-95.0, -80.0)), "eCa": draw(fl(110.0, 130.0)), "eNa": draw(fl(45.0, 55.0))}
    return c


@st.composite
def _cell(draw, max_b, max_n):
    struct = draw(gm.cell_struct(max_b, max_n))
    proto = draw(st.booleans())
    branches = []
    for n in struct["ncomp"]:
        if proto:
            one = draw(_comp())
            branches.append([one] * n)
        else:
            branches.append([draw(_comp()) for _ in range(n)])
    # a valid re-listing: a permutation in which every parent precedes its children
    nb = len(struct["parents"])
    remaining = list(range(nb))
    order = []
    while remaining:
        ready = [b for b in remaining if struct["parents"][b] < 0 or struct["parents"][b] in order]
        # the root stays first (Cell requires parents[0] == -1 and a single tree)
        pick = ready[0] if not order else draw(st.sampled_from(ready))
        order.append(pick)
        remaining.remove(pick)
    return {"parents": struct["parents"], "branches": branches, "perm": order}


@st.composite
def _spec(draw, tier):
    ncell = draw(st.integers(1, 3))
    cells = [draw(_cell(6, 3)) for _ in range(ncell)]
    if ncell > 1 and draw(st.integers(0, 2)) == 0:
        # same compartment count in every branch of every cell: the default solvers accept such a network even when
        # its cells differ in depth and shape (they refuse different per-level compartment counts)
        n = draw(st.integers(1, 3))
        for c in cells:
            c["branches"] = [(b * n)[:n] for b in c["branches"]]
    N = sum(len(b) for c in cells for b in c["branches"])
    T = draw(st.integers(4, 10))
    stim = draw(gn.stimuli(N, T, max_stim=2, min_stim=1))
    return {"cells": cells, "cell_perm": list(draw(st.permutations(list(range(ncell))))), "stim": stim, "nsteps": T,
            "solver": draw(st.sampled_from(["bwd_euler", "bwd_euler", "crank_nicolson"])), "backend": draw(st.sampled_from(gn.BACKENDS)),
            "level": draw(st.sampled_from(["network", "network", "cell", "branch", "compartment"]))}


def strategy(tier):
    return _spec(tier)


def size(spec):
    return (len(spec["cells"]), sum(len(c["branches"]) for c in spec["cells"]), core.spec_size(spec))


# ---------------------------------------------------------------------------------------


def make_comp(c):
    import jaxley as jx
    import jaxley.channels as jc

    comp = jx.Compartment()
    for k in ("radius", "length", "axial_resistivity", "capacitance", "v"):
        comp.set(k, float(c[k]))
    for ch in c["channels"]:
        name = ch.get("name") or ch["mech"]
        cls = getattr(jc, ch["mech"])
        comp.insert(cls(name) if ch.get("name") else cls())
        table = R2.CHANNELS[ch["mech"]]
        for k, val in ch["params"].items():
            comp.set(k if k in table["globals"] else f"{name}_{k}", float(val))
        for k, val in ch["states"].items():
            comp.set(f"{name}_{k}", float(val))
    for k, val in c["shared"].items():
        if k in comp.nodes.columns:
            comp.set(k, float(val))
    return comp


def make_branch(comps):
    import jaxley as jx

    return jx.Branch([make_comp(c) for c in comps])


def make_cell(cell, perm=None):
    import jaxley as jx

    order = list(range(len(cell["parents"]))) if perm is None else list(perm)
    new_index = {old: new for new, old in enumerate(order)}
    parents = [-1 if cell["parents"][old] < 0 else new_index[cell["parents"][old]] for old in order]
    return jx.Cell([make_branch(cell["branches"][old]) for old in order], parents=parents)


def expected_rows(comps):
    """Value model of the node table: one dict per compartment."""
    union = []  # (mech, name)
    for c in comps:
        for ch in c["channels"]:
            key = (ch["mech"], ch.get("name") or ch["mech"])
            if key not in union:
                union.append(key)
    rows = []
    for c in comps:
        r = {k: float(c[k]) for k in ("radius", "length", "axial_resistivity", "capacitance", "v")}
        have = {(ch.get("name") or ch["mech"]): ch for ch in c["channels"]}
        cols = {}
        for mech, name in union:
            table = R2.CHANNELS[mech]
            r[name] = name in have
            for k in table["params"]:
                cols.setdefault(k if k in table["globals"] else f"{name}_{k}", np.nan)
            for k in table["states"]:
                cols.setdefault(f"{name}_{k}", np.nan)
        for name, ch in have.items():
            table = R2.CHANNELS[ch["mech"]]
            for k, dflt in table["params"].items():
                if k in table["globals"]:
                    cols[k] = float(c["shared"][k])
                else:
                    cols[f"{name}_{k}"] = float(ch["params"].get(k, dflt))
            for k, dflt in table["states"].items():
                cols[f"{name}_{k}"] = float(ch["states"].get(k, dflt))
        r.update(cols)
        rows.append(r)
    return rows


def table_mismatch(nodes, rows):
    from vp.snap import _cell_equal

    if len(nodes) != len(rows):
        return f"{len(nodes)} rows, expected {len(rows)}"
    if list(nodes["global_comp_index"]) != list(range(len(rows))) or list(nodes.index) != list(range(len(rows))):
        return f"global_comp_index {list(nodes['global_comp_index'])} is not 0..N-1"
    for i, r in enumerate(rows):
        for col, want in r.items():
            if col not in nodes.columns:
                return f"column {col} missing"
            got = nodes[col].iloc[i]
            if isinstance(want, bool):
                if bool(got) != want or (isinstance(got, float) and np.isnan(got)):
                    return f"row {i} channel flag {col} = {got!r}, expected {want}"
            elif not _cell_equal(float(got) if got is not None else got, want):
                return f"row {i} column {col} = {got!r}, expected {want!r}"
    # columns of channels that no constituent carries (a new bookkeeping column of the library is not judged)
    mech_prefixes = tuple(m_ + "_" for m_ in MECHS) + tuple(m_ + "b_" for m_ in MECHS)
    extra = [c for c in nodes.columns if c not in rows[0] and (c.startswith(mech_prefixes) or c in MECHS or c in [m_ + "b" for m_ in MECHS])]
    if extra:
        return f"unexpected columns {extra}"
    return None


def simulate(m, stim, spec, backend=None):
    import jax.numpy as jnp
    import jaxley as jx

    for s in stim:
        gn.view_of(m, [s["row"]]).stimulate(jnp.asarray(np.asarray(s["samples"], float)), verbose=False)
    if not stim:
        gn.view_of(m, [0]).stimulate(jnp.zeros(int(spec["nsteps"])), verbose=False)
    m.record("v", verbose=False)
    return np.asarray(jx.integrate(m, delta_t=0.025, solver=spec["solver"], voltage_solver=backend or spec["backend"]), float)


def sim_with_fallback(build, stim, spec, out, label):
    m, err = core.call(build)
    if err:
        return None, err
    res, err = core.call(simulate, m, stim, spec)
    if err and spec["backend"] != "jax.sparse" and "solver_utils" in err.frame:
        out.refusals.append(f"{label}:{spec['backend']}:{err.etype}@{err.frame}")
        res, err = core.call(simulate, build(), stim, spec, "jax.sparse")
    return res, err


def judge(spec, tier="quick"):
    import jaxley as jx

    out = core.Outcome()
    cells = spec["cells"]
    level = spec["level"]
    if level == "compartment":
        cells = [{"parents": [-1], "branches": [cells[0]["branches"][0][:1]], "perm": [0]}]
    elif level == "branch":
        cells = [{"parents": [-1], "branches": [cells[0]["branches"][0]], "perm": [0]}]
    elif level == "cell":
        cells = cells[:1]
    comps = [c for cell in cells for b in cell["branches"] for c in b]
    N = len(comps)
    stim = [s for s in spec["stim"] if s["row"] < N]
    # bookkeeping for non-triviality
    chsets = {tuple(sorted((ch.get("name") or ch["mech"]) for ch in c["channels"])) for c in comps}
    ncs = {len(b) for cell in cells for b in cell["branches"]}
    if len(chsets) >= 2 and len(ncs) >= 2:
        out.nontrivial_keys.append(core.h([[(cell["parents"], [[tuple(sorted((ch.get("name") or ch["mech"]) for ch in c["channels"])) for c in b] for b in cell["branches"]]) for cell in cells], level]))
    if any(ch.get("name") for c in comps for ch in c["channels"]):
        out.classes.append("renamed channel instance")
    out.classes.append("level:" + level)

    def whole():
        if level == "network":
            return jx.Network([make_cell(c) for c in cells])
        return make_cell(cells[0])

    m, err = core.call(whole)
    if err:
        out.violate("raises:assembly", f"assembling {level} raised {err.short()}", etype=err.etype, frame=err.frame)
        return out
    # (1) table
    out.evals += 1
    want_names = []
    for c in comps:
        for ch in c["channels"]:
            if (ch.get("name") or ch["mech"]) not in want_names:
                want_names.append(ch.get("name") or ch["mech"])
    if sorted(ch._name for ch in m.channels) != sorted(want_names):
        out.violate("table", f"assembled {level} registers channels {[ch._name for ch in m.channels]}, its constituents carry {want_names}")
        return out
    bad = table_mismatch(m.nodes, expected_rows(comps))
    if bad:
        out.violate("table", f"assembled {level} (cells {[c['parents'] for c in cells]}, ncomp {[[len(b) for b in c['branches']] for c in cells]}): {bad}")
        return out
    nb = [len(b) for cell in cells for b in cell["branches"]]
    if list(m.nodes["global_branch_index"]) != list(np.repeat(np.arange(len(nb)), nb)):
        out.violate("table", f"global_branch_index {list(m.nodes['global_branch_index'])} not contiguous per branch")
        return out
    # (2) whole vs parts
    full, err = sim_with_fallback(whole, stim, spec, out, "whole")
    if err:
        out.violate("raises:simulate", f"simulating the assembled {level} raised {err.short()}", etype=err.etype, frame=err.frame)
        return out
    if not np.isfinite(full).all() or np.max(np.abs(full)) > 300:
        out.filtered += 1
        return out
    sc = max(1.0, float(np.max(np.abs(full))))
    parts = []
    off = 0
    for ci, cell in enumerate(cells):
        n = sum(len(b) for b in cell["branches"])
        st_ = [dict(s, row=s["row"] - off) for s in stim if off <= s["row"] < off + n]
        if len(cell["branches"]) == 1 and len(cell["branches"][0]) == 1:
            build = lambda cell=cell: make_comp(cell["branches"][0][0])
            out.classes.append("part:compartment")
        elif len(cell["branches"]) == 1:
            build = lambda cell=cell: make_branch(cell["branches"][0])
            out.classes.append("part:branch")
        else:
            build = lambda cell=cell: make_cell(cell)
            out.classes.append("part:cell")
        res, err = sim_with_fallback(build, st_, spec, out, "part")
        if err:
            out.violate("raises:simulate", f"simulating constituent {ci} alone raised {err.short()}", etype=err.etype, frame=err.frame)
            return out
        parts.append(res)
        off += n
    alone = np.concatenate(parts, axis=0)
    out.evals += 1
    if alone.shape != full.shape or not np.allclose(alone, full, rtol=0, atol=1e-9 * sc):
        d = np.abs(alone - full) if alone.shape == full.shape else None
        i = int(np.unravel_index(np.argmax(d), d.shape)[0]) if d is not None else -1
        out.violate("whole-vs-parts", f"{level}: compartment {i} differs from its constituent simulated alone by {np.max(d) if d is not None else (alone.shape, full.shape)} mV; "
                    f"cells {[c['parents'] for c in cells]}, ncomp {[[len(b) for b in c['branches']] for c in cells]}, {spec['solver']}/{spec['backend']}")
        return out
    # (3) permutations
    cperm = [p for p in spec["cell_perm"] if p < len(cells)] if level == "network" else [0]
    if level in ("network", "cell") and (any(c["perm"] != sorted(c["perm"]) for c in cells) or cperm != sorted(cperm)):
        def permuted():
            cs = [make_cell(cells[ci], cells[ci]["perm"]) for ci in cperm]
            return jx.Network(cs) if level == "network" else cs[0]

        # map new row -> old row
        starts = {}
        off = 0
        for ci, cell in enumerate(cells):
            for bi, b in enumerate(cell["branches"]):
                starts[(ci, bi)] = off
                off += len(b)
        new_to_old = []
        for ci in cperm:
            for old_b in cells[ci]["perm"]:
                new_to_old += list(range(starts[(ci, old_b)], starts[(ci, old_b)] + len(cells[ci]["branches"][old_b])))
        old_to_new = {o: n for n, o in enumerate(new_to_old)}
        st2 = [dict(s, row=old_to_new[s["row"]]) for s in stim]
        mp, err = core.call(permuted)
        if err:
            out.violate("raises:assembly", f"assembling the re-ordered {level} raised {err.short()}", etype=err.etype, frame=err.frame)
            return out
        out.evals += 1
        bad = table_mismatch(mp.nodes, [expected_rows(comps)[o] for o in new_to_old])
        if bad:
            out.violate("permutation-table", f"re-listed branches {[c['perm'] for c in cells]} / cells {cperm}: {bad}")
            return out
        res, err = sim_with_fallback(permuted, st2, spec, out, "permuted")
        if err:
            out.violate("raises:simulate", f"simulating the re-ordered {level} raised {err.short()}", etype=err.etype, frame=err.frame)
            return out
        out.evals += 1
        out.classes.append("permuted")
        if res.shape != full.shape or not np.allclose(res, full[new_to_old], rtol=0, atol=1e-9 * sc):
            out.violate("permutation-sim", f"re-listing branches {[c['perm'] for c in cells]} / cells {cperm} changes the voltages by "
                        f"{np.max(np.abs(res - full[new_to_old])) if res.shape == full.shape else res.shape} mV beyond the permutation; parents {[c['parents'] for c in cells]}")
    return out


PREDICATES = {}
