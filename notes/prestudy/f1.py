import sys; sys.path.insert(0,'/tmp/scratch/exp')
from ref import *
rng = np.random.default_rng(0)
cases = [
  ([-1],[3]),
  ([-1,0,0],[2,2,2]),
  ([-1,0,0],[3,2,4]),
  ([-1,0,0,1,1],[2,2,2,2,2]),
  ([-1,0,0,1,1],[2,1,3,2,2]),
  ([-1,0,0,1,1],[3,1,3,2,2]),
  ([-1,0,0,2,2],[3,3,1,2,2]),
  ([-1,0,1,2],[1,2,3,4]),
  ([-1,0,0,0,1,1,3],[2,3,1,2,4,1,2]),
]
for parents, ncomps in cases:
    cell = build_cell(parents, ncomps, rng)
    dt = 0.025
    ref = reference_step(cell.nodes, parents, ncomps, dt)
    for vs in ['jaxley.stone','jaxley.thomas','jax.sparse']:
        try:
            out = jaxley_step(cell, dt, vs)
            print(parents, ncomps, vs, out.shape, 'maxerr', np.abs(out[:,1]-ref).max())
        except Exception as ex:
            print(parents, ncomps, vs, 'ERR', type(ex).__name__, str(ex)[:100])
