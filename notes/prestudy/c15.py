import sys; sys.path.insert(0,'/tmp/scratch/exp')
import warnings; warnings.filterwarnings('ignore')
from ref import *
from jaxley.channels import Leak
def cable(n, L, r, Ra, g, cm, E=-70.0):
    comp = jx.Compartment(); br = jx.Branch(comp, ncomp=n)
    br.set('length', L/n); br.set('radius', r); br.set('axial_resistivity', Ra); br.set('capacitance', cm)
    br.insert(Leak()); br.set('Leak_gLeak', g); br.set('Leak_eLeak', E); br.set('v', E)
    return br
r, Ra, g, cm = 1.0, 150.0, 2e-4, 1.0
# lambda in cm: sqrt( (r_cm/2) / (Ra*g) )
lam = np.sqrt((r*1e-4/2)/(Ra*g))*1e4  # um
L = 1.5*lam; I=0.1 # nA
print('lambda um', lam)
ri = Ra/(np.pi*(r*1e-4)**2)  # ohm/cm
Rinf = ri*(lam*1e-4)  # ohm
def analytic(x, x0):
    xl = np.minimum(x,x0); xg = np.maximum(x,x0)
    return I*1e-9*Rinf*np.cosh(xl/lam)*np.cosh((L-xg)/lam)/np.sinh(L/lam)*1e3  # mV
errs=[]
for n in [4,8,16,32,64]:
    br = cable(n,L,r,Ra,g,cm)
    br.comp(0).stimulate(I*jnp.ones(6), verbose=False); br.record('v', verbose=False)
    out = np.asarray(jx.integrate(br, delta_t=1e7, voltage_solver='jaxley.thomas'))[:, -1] + 70.0
    x = (np.arange(n)+0.5)*L/n
    e = np.abs(out-analytic(x, x[0])).max(); errs.append(e)
print('space errs', errs, 'orders', [np.log2(errs[i]/errs[i+1]) for i in range(4)])
# time: single comp RC
for solver,p in [('bwd_euler',1),('crank_nicolson',2)]:
    errs=[]
    for k in range(5):
        dt = 0.5/2**k; T=5.0; nst = int(round(T/dt))
        c = cable(1, 10.0, r, Ra, g, cm); c.set('v', -50.0); c.record('v', verbose=False)
        c.stimulate(jnp.zeros(nst), verbose=False)
        out = np.asarray(jx.integrate(c, delta_t=dt, solver=solver))[0,-1]
        tau = cm/g*1e-3
        errs.append(abs(out - (-70 + 20*np.exp(-T/tau))))
    print(solver, errs, [np.log2(errs[i]/errs[i+1]) for i in range(4)])
# time on cable eigenmode
for solver in ['bwd_euler','crank_nicolson']:
    errs=[]
    n=32
    for k in range(5):
        dt = 0.4/2**k; T=4.0; nst=int(round(T/dt))
        br = cable(n,L,r,Ra,g,cm); x=(np.arange(n)+0.5)*L/n
        br.set('v', -70 + 10*np.cos(np.pi*x/L)); br.record('v', verbose=False); br.stimulate(jnp.zeros(nst), verbose=False)
        out = np.asarray(jx.integrate(br, delta_t=dt, solver=solver))[:,-1]
        tau = cm/g*1e-3
        # discrete-space eigenvalue for exactness in space: mu = (2/dx^2)(1-cos(pi dx/L)) lam^2
        dx=L/n; mu = (2/dx**2)*(1-np.cos(np.pi*dx/L))*lam**2
        ex = -70 + 10*np.cos(np.pi*x/L)*np.exp(-T*(1+mu)/tau)
        errs.append(np.abs(out-ex).max())
    print('cable', solver, errs, [np.log2(errs[i]/errs[i+1]) for i in range(4)])
