import sys; sys.path.insert(0,'/tmp/scratch/exp')
import warnings; warnings.filterwarnings('ignore')
from ref import *
import random, collections
random.seed(0)
comp = jx.Compartment()
def mk(parents, ncs): return jx.Cell([jx.Branch(comp, ncomp=n) for n in ncs], parents=parents)
def rand_net():
    cells=[]
    spec=[]
    for _ in range(random.randint(1,3)):
        nb=random.randint(1,4); parents=[-1]+[random.randint(0,b-1) for b in range(1,nb)]; ncs=[random.randint(1,3) for _ in range(nb)]
        cells.append(mk(parents,ncs)); spec.append(ncs)
    return jx.Network(cells), spec
def rows_of(spec):
    rows=[]; gb=0; gc=0
    for ci,ncs in enumerate(spec):
        for n in ncs:
            for k in range(n): rows.append((ci,gb,gc)); gc+=1
            gb+=1
    return rows
def dense(vals):
    u=sorted(set(vals)); return {v:i for i,v in enumerate(u)}
def local_indices(rows, view):
    # view: list of row ids
    cells=dense([rows[i][0] for i in view])
    out={}
    for i in view:
        c=rows[i][0]
        bs=dense([rows[j][1] for j in view if rows[j][0]==c])
        cs=dense([rows[j][2] for j in view if rows[j][0]==c and rows[j][1]==rows[i][1]])
        out[i]=(cells[c], bs[rows[i][1]], cs[rows[i][2]])
    return out
def model_step(rows, view, level, scope, idx):
    li=local_indices(rows, view)
    pos={'cell':0,'branch':1,'comp':2}[level]
    def val(i): return rows[i][pos] if scope=='global' else li[i][pos]
    if idx=='all': return list(view)
    s=set(idx if isinstance(idx,(list,tuple)) else [idx])
    return [i for i in view if val(i) in s]
stats=collections.Counter(); fails=[]
for trial in range(60):
    net,spec=rand_net(); rows=rows_of(spec)
    for _ in range(12):
        view_m=list(range(len(rows))); view_j=net; chain=[]
        scope='local'
        levels=['cell','branch','comp']
        start=0
        ok=True
        for lev in levels[start:]:
            if random.random()<0.25: continue
            if random.random()<0.3:
                scope = 'global' if scope=='local' else 'local'; view_j = view_j.scope(scope); chain.append(('scope',scope))
            li=local_indices(rows, view_m); pos={'cell':0,'branch':1,'comp':2}[lev]
            avail=sorted(set((rows[i][pos] if scope=='global' else li[i][pos]) for i in view_m))
            form=random.choice(['int','list','all','list+missing'])
            if form=='int': idx=random.choice(avail)
            elif form=='all': idx='all'
            else:
                idx=random.sample(avail, random.randint(1,len(avail)))
                if form=='list+missing': idx=idx+[max(avail)+3]
            chain.append((lev,idx))
            view_m=model_step(rows, view_m, lev, scope, idx)
            try:
                view_j=getattr(view_j, lev)(idx)
            except Exception as ex:
                if len(view_m)==0 and isinstance(ex, ValueError): stats['empty-ok']+=1
                else: stats['exc']+=1; fails.append((spec,chain,type(ex).__name__,str(ex)[:80]))
                ok=False; break
        if not ok: continue
        got=view_j.nodes.index.tolist() if hasattr(view_j,'nodes') else None
        li=local_indices(rows, view_m)
        got_local=[tuple(int(x) for x in r) for r in view_j.nodes[['local_cell_index','local_branch_index','local_comp_index']].values]
        exp_local=[li[i] for i in view_m]
        if got==view_m and got_local==exp_local: stats['ok']+=1
        else: stats['mismatch']+=1; fails.append((spec,chain,got,view_m,got_local,exp_local))
print(stats)
for f in fails[:6]: print(f)
