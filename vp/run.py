"""Runner: `python -m vp.run <ID> [--tier quick|thorough] [--replay FILE] [--workers N]`.

Exit 0: property held on everything explored (open known findings are reported as
`KNOWN-FINDING:` lines). Exit 1: `VIOLATION property=<id> replay=<path>` printed for each
new violation bucket. Exit 2: harness error.
"""
from __future__ import annotations

import argparse
import glob
import importlib
import json
import multiprocessing as mp
import os
import sys
import time
import traceback
import zlib

from vp import core
from vp.known import load_known

TIERS = ("quick", "thorough")


def _derive_seed(seed: int, cid: str, widx: int) -> int:
    return (zlib.crc32(f"{seed}/{cid}/{widx}".encode()) ^ (seed * 2654435761)) & 0x7FFFFFFF


class WorkerState:
    def __init__(self, mod, tier, preds, shrink_budget, deadline):
        self.mod = mod
        self.tier = tier
        self.preds = preds
        self.shrink_budget = shrink_budget
        self.deadline = deadline
        self.calls = 0
        self.evals = 0
        self.nontrivial = set()
        self.classes = {}
        self.refusals = {}
        self.crashes = {}
        self.filtered = 0
        self.inconclusive = 0
        self.excluded_known = {}
        self.samples = []
        self.largest = None
        self.timed_out_calls = 0
        self.fail_t0 = None
        self.best = None  # (size, spec, violations)
        self.best_key = None
        self.after_budget = 0
        self.notes = {}
        # memory: XLA/LLVM never return the memory of compiled executables; a worker whose resident set passes the
        # limit stops judging (remaining examples are "deferred") and the parent continues them in a fresh process
        self.rss_limit_mb = int(os.environ.get("VERIF_RSS_LIMIT_MB", "1500"))
        self.recycle = False
        self.deferred = 0

    def judge(self, spec):
        """Judge one spec; returns the violations that are not covered by an open finding."""
        self.judged = getattr(self, "judged", 0) + 1
        if self.judged % 120 == 0:
            # every compiled XLA executable keeps memory mappings alive; a worker that judges
            # thousands of differently shaped models would exhaust vm.max_map_count (LLVM then aborts)
            import gc

            import jax

            jax.clear_caches()
            gc.collect()
        out = self.mod.judge(spec, self.tier)
        if self.judged % 10 == 0 and not self.recycle and _rss_mb() > self.rss_limit_mb:
            self.recycle = True
        self.evals += out.evals
        self.nontrivial.update(out.nontrivial_keys)
        for c in out.classes:
            self.classes[c] = self.classes.get(c, 0) + 1
        for r in out.refusals:
            self.refusals[r] = self.refusals.get(r, 0) + 1
        for r in out.internal_crashes:
            self.crashes[r] = self.crashes.get(r, 0) + 1
        for r in out.notes:
            self.notes[r] = self.notes.get(r, 0) + 1
        self.filtered += out.filtered
        self.inconclusive += out.inconclusive
        new = []
        for v in out.violations:
            hit = None
            for fid, pred in self.preds:
                if pred(spec, v):
                    hit = fid
                    break
            if hit is None:
                new.append(v)
            else:
                self.excluded_known[hit] = self.excluded_known.get(hit, 0) + 1
        return out, new

    def run(self, spec):
        """Body of the Hypothesis test."""
        from vp.core import canon, spec_size

        self.calls += 1
        now = time.time()
        if self.fail_t0 is not None and now - self.fail_t0 > self.shrink_budget:
            # Shrink budget spent: let everything but the remembered failure pass so that
            # the shrinker terminates and Hypothesis' final replay stays consistent.
            self.after_budget += 1
            if canon(spec) == self.best_key:
                raise ViolationFound("remembered")
            return
        if self.fail_t0 is None and now > self.deadline:
            self.timed_out_calls += 1
            return
        if self.fail_t0 is None and self.recycle:
            self.deferred += 1
            return
        out, new = self.judge(spec)
        if len(self.samples) < 3:
            self.samples.append(spec)
        sz = spec_size(spec)
        if out.nontrivial_keys and (self.largest is None or sz > self.largest[0]):
            self.largest = (sz, spec)
        if new:
            if self.fail_t0 is None:
                self.fail_t0 = now
            size_fn = getattr(self.mod, "size", spec_size)
            s = size_fn(spec)
            if self.best is None or s < self.best[0]:
                self.best = (s, spec, new)
                self.best_key = canon(spec)
            raise ViolationFound(new[0]["clause"])


class ViolationFound(Exception):
    pass


def _trim_compile_cache(limit_mb=int(os.environ.get("VERIF_CACHE_LIMIT_MB", "1500"))):
    """The persistent XLA compilation cache under .cache/jax only ever grows (4 GB after a day of thorough runs):
    start from an empty one once it passes the limit. Called by the parent process before any worker starts."""
    import shutil

    d = os.path.join(core.VERIF_DIR, ".cache", "jax")
    try:
        total = 0
        with os.scandir(d) as it:
            for e in it:
                if e.is_file(follow_symlinks=False):
                    total += e.stat(follow_symlinks=False).st_size
        if total > limit_mb * 2**20:
            shutil.rmtree(d, ignore_errors=True)
    except OSError:
        pass


def _rss_mb():
    try:
        with open("/proc/self/statm") as fh:
            return int(fh.read().split()[1]) * os.sysconf("SC_PAGE_SIZE") / 2**20
    except Exception:  # noqa: BLE001
        return 0.0


def _worker(args):
    cid, tier, seed, widx, nworkers, budget, shrink_budget, deadline = args[:8]
    rnd, enum_start = (args[8], args[9]) if len(args) > 8 else (0, 0)  # continuation of a recycled worker
    t0 = time.time()
    res = {"widx": widx, "error": None, "round": rnd}
    try:
        core.setup_env()
        from hypothesis import HealthCheck, Phase, given, settings
        from hypothesis import seed as hseed

        mod = importlib.import_module(f"vp.checks.{cid.lower()}")
        known = load_known()
        preds = [
            (e["id"], mod.PREDICATES[e["predicate"]])
            for e in known["open"]
            if e["property"] == cid
        ]
        st = WorkerState(mod, tier, preds, shrink_budget, deadline)
        strat = mod.strategy(tier)

        @hseed(_derive_seed(seed, cid, widx + 1000 * rnd))
        @settings(
            database=None,
            deadline=None,
            max_examples=budget,
            suppress_health_check=list(HealthCheck),
            report_multiple_bugs=False,
            phases=[Phase.generate, Phase.shrink],
            print_blob=False,
            derandomize=False,
        )
        @given(strat)
        def test(spec):
            st.run(spec)

        failure = None
        res["enumerated"] = 0
        if hasattr(mod, "enumerate_cases"):
            # bounded exhaustive sub-run, sharded over the workers (no Hypothesis involved)
            cases = mod.enumerate_cases(tier)
            shard = cases[widx::nworkers] if enum_start is not None else []
            for k_enum, spec in enumerate(shard):
                if k_enum < enum_start:
                    continue
                if st.recycle:
                    res["enum_next"] = k_enum
                    break
                if time.time() > deadline:
                    st.timed_out_calls += 1
                    continue
                res["enumerated"] += 1
                st.calls += 1
                _, new = st.judge(spec)
                if new and st.best is None:
                    st.best = (0, spec, new)
                    st.best_key = core.canon(spec)
                    failure = "violation"
                    break
        try:
            if failure is None and "enum_next" in res:
                st.deferred = budget  # the whole generated part is left to the continuation
            elif failure is None and budget > 0:
                test()
        except ViolationFound:
            failure = "violation"
        except BaseException as e:  # noqa: BLE001
            name = type(e).__name__
            if st.best is not None and ("Flaky" in name or "ExceptionGroup" in name):
                failure = "violation"
            else:
                raise
        if failure and st.best is not None:
            # Confirm outside Hypothesis that the remembered spec fails deterministically.
            _, new = st.judge(st.best[1])
            if new:
                res["failure"] = {
                    "spec": core.jsonable(st.best[1]),
                    "violations": core.jsonable(new),
                }
            else:
                res["error"] = "flaky: remembered failing spec passed on re-judging: " + core.canon(
                    st.best[1]
                )[:2000]
        res["deferred"] = 0 if failure else st.deferred
        res.update(
            calls=st.calls - st.deferred,
            evals=st.evals,
            nontrivial=sorted(st.nontrivial),
            classes=st.classes,
            refusals=st.refusals,
            crashes=st.crashes,
            filtered=st.filtered,
            inconclusive=st.inconclusive,
            excluded_known=st.excluded_known,
            samples=[core.jsonable(s) for s in st.samples]
            + ([core.jsonable(st.largest[1])] if st.largest else []),
            timed_out_calls=st.timed_out_calls,
            notes=st.notes,
        )
        res["enumerated_total"] = len(mod.enumerate_cases(tier)) if hasattr(mod, "enumerate_cases") else 0
    except BaseException as e:  # noqa: BLE001
        res["error"] = "".join(traceback.format_exception(type(e), e, e.__traceback__))[-4000:]
    res["wall"] = time.time() - t0
    return res


def _replay_worker(args):
    """Judge a list of saved specs (regress / known witnesses / --replay)."""
    cid, tier, files = args
    res = {"error": None, "results": []}
    try:
        core.setup_env()
        mod = importlib.import_module(f"vp.checks.{cid.lower()}")
        known = load_known()
        preds = [
            (e["id"], mod.PREDICATES[e["predicate"]])
            for e in known["open"]
            if e["property"] == cid
        ]
        st = WorkerState(mod, tier, preds, 0, float("inf"))
        for f in files:
            with open(f) as fh:
                data = json.load(fh)
            spec = data["spec"] if "spec" in data else data
            out = st.mod.judge(spec, tier)
            matched = []
            new = []
            for v in out.violations:
                hit = [fid for fid, p in preds if p(spec, v)]
                (matched if hit else new).append((v, hit))
            res["results"].append(
                {
                    "file": f,
                    "spec": spec,
                    "evals": out.evals,
                    "nontrivial": out.nontrivial_keys,
                    "new": [v for v, _ in new],
                    "known": [{"v": v, "ids": hit} for v, hit in matched],
                }
            )
    except BaseException as e:  # noqa: BLE001
        res["error"] = "".join(traceback.format_exception(type(e), e, e.__traceback__))[-4000:]
    return res


def bucket_key(v):
    return (v.get("clause"), v.get("etype"), v.get("frame"))


def main(argv=None):
    ap = argparse.ArgumentParser()
    ap.add_argument("id")
    ap.add_argument("--tier", default="quick", choices=TIERS)
    ap.add_argument("--replay", default=None)
    ap.add_argument("--workers", type=int, default=int(os.environ.get("VERIF_WORKERS", "16")))
    ap.add_argument("--examples", type=int, default=None, help="override per-worker budget")
    a = ap.parse_args(argv)
    cid = a.id.upper()
    tier = os.environ.get("VERIF_TIER", a.tier)
    if tier not in TIERS:
        tier = a.tier
    seed = int(os.environ.get("VERIF_SEED", "1"))
    os.environ["PYTHONHASHSEED"] = "0"
    t0 = time.time()
    os.chdir(core.VERIF_DIR)
    ctx = mp.get_context("spawn")

    try:
        # check modules import jax/jaxley lazily, so this import is cheap
        meta = importlib.import_module(f"vp.checks.{cid.lower()}")
    except Exception:
        traceback.print_exc()
        print(f"HARNESS-ERROR property={cid} cannot import meta")
        return 2

    if a.replay:
        from concurrent.futures import ProcessPoolExecutor

        with ProcessPoolExecutor(max_workers=1, mp_context=ctx) as pool:
            r = pool.submit(_replay_worker, (cid, tier, [a.replay])).result()
        if r["error"]:
            print(r["error"])
            return 2
        rr = r["results"][0]
        for v in rr["known"]:
            print(f"KNOWN-FINDING: property={cid} {v['ids'][0]} {v['v']['clause']}: {v['v']['msg'][:300]}")
        for v in rr["new"]:
            print(f"  violation clause={v['clause']}: {v['msg'][:600]}")
        if rr["new"]:
            print(f"VIOLATION property={cid} replay={os.path.abspath(a.replay)}")
            return 1
        print(f"replay ok: property={cid} file={a.replay} evals={rr['evals']}")
        return 0

    known = load_known()
    violations = []  # (spec, [violation dicts], origin)
    known_lines = []
    replayed = 0
    errors = []

    # 1. replay tier: regressions and witnesses of open findings
    regress = sorted(glob.glob(os.path.join("replays", "regress", cid, "*.json")))
    witnesses = [
        (e, e["witness"]) for e in known["open"] if e["property"] == cid and e.get("witness")
    ]
    files = regress + [w for _, w in witnesses]
    replay_evals = 0
    replay_nontrivial = set()
    nworkers = max(1, a.workers)
    budget = a.examples if a.examples is not None else meta.budget(tier)
    wall_guard = meta.wall_guard(tier) if hasattr(meta, "wall_guard") else (900 if tier == "quick" else 7200)
    shrink_budget = 60 if tier == "quick" else 300
    deadline = t0 + wall_guard
    jobs = [
        (cid, tier, seed, w, nworkers, budget, shrink_budget, deadline) for w in range(nworkers)
    ]
    # ProcessPoolExecutor (not mp.Pool): a worker killed by the OS / aborted by LLVM surfaces as
    # BrokenProcessPool instead of hanging the run; it is reported as a harness error (exit 2)
    from concurrent.futures import ProcessPoolExecutor

    rep_results, results = [], []
    pool_error = None
    import concurrent.futures as cf

    _trim_compile_cache()
    recycled = 0
    # max_tasks_per_child=1: every task (also the continuation of a recycled worker) gets a fresh process
    with ProcessPoolExecutor(max_workers=nworkers, mp_context=ctx, max_tasks_per_child=1) as pool:
        rep_f = []
        if files:
            shards = [files[i::4] for i in range(min(4, len(files)))]
            rep_f = [pool.submit(_replay_worker, (cid, tier, s)) for s in shards]
        pending = {pool.submit(_worker, j): j for j in jobs}
        for f in rep_f:
            try:
                rep_results.append(f.result())
            except BaseException as e:  # noqa: BLE001
                pool_error = f"replay worker died: {type(e).__name__}: {e}"
        while pending and not pool_error:
            done, _ = cf.wait(list(pending), return_when=cf.FIRST_COMPLETED)
            for f in done:
                j = pending.pop(f)
                try:
                    r = f.result()
                except BaseException as e:  # noqa: BLE001
                    pool_error = f"worker {j[3]} died: {type(e).__name__}: {e}"
                    break
                results.append(r)
                more = (r.get("deferred", 0) > 0 or "enum_next" in r) and not r.get("error") and "failure" not in r
                if more and time.time() < deadline:
                    recycled += 1
                    rnd = (j[8] if len(j) > 8 else 0) + 1
                    nj = j[:5] + (r["deferred"],) + j[6:8] + (rnd, r.get("enum_next", None))
                    pending[pool.submit(_worker, nj)] = nj
    if pool_error:
        errors.append(pool_error)

    # optional second engine (coverage-guided fuzzing): parallel subprocesses, results merged below
    fuzz = {"engine": None, "execs": 0, "judged": 0, "distinct_nontrivial": 0, "processes": 0, "violations": []}
    if hasattr(meta, "extra_engine_cmds"):
        import subprocess
        import tempfile

        cmds = meta.extra_engine_cmds(tier, seed)
        if cmds:
            tmpd = tempfile.mkdtemp(prefix="vp-fuzz-", dir=os.environ.get("VERIF_SCRATCH", "/dev/shm") if os.path.isdir("/dev/shm") else None)
            procs = []
            for i, cmd in enumerate(cmds):
                sf = os.path.join(tmpd, f"stats_{i}.json")
                env = dict(os.environ, PYTHONPATH=os.pathsep.join([os.path.join(core.VERIF_DIR, ".deps"), os.environ.get("PYTHONPATH", "")]))
                procs.append((sf, subprocess.Popen(cmd + ["--stats-file", sf, "--out", os.path.join(os.environ.get("VERIF_OUT", core.VERIF_DIR), "replays", cid)],
                                                   cwd=core.VERIF_DIR, env=env, stdout=subprocess.DEVNULL, stderr=subprocess.DEVNULL)))
            for sf, pr in procs:
                pr.wait()
                if os.path.exists(sf):
                    st_ = json.load(open(sf))
                    fuzz["engine"] = "atheris"
                    fuzz["processes"] += 1
                    fuzz["execs"] += st_["execs"]
                    fuzz["judged"] += st_["judged"]
                    fuzz["distinct_nontrivial"] += st_["distinct_nontrivial"]
                    if st_["violation"]:
                        fuzz["violations"].append((st_["violation"], st_["first"]))
            import shutil

            shutil.rmtree(tmpd, ignore_errors=True)
            shutil.rmtree(os.path.join(core.VERIF_DIR, ".cache", "atheris_c16"), ignore_errors=True)

    for r in rep_results:
        if r["error"]:
            errors.append("replay: " + r["error"])
            continue
        for rr in r["results"]:
            replayed += 1
            replay_evals += rr["evals"]
            replay_nontrivial.update(rr["nontrivial"])
            is_witness = [e for e, w in witnesses if w == rr["file"]]
            if is_witness:
                e = is_witness[0]
                if any(e["id"] in k["ids"] for k in rr["known"]):
                    known_lines.append(f"KNOWN-FINDING: property={cid} {e['id']} {e['text']}")
                else:
                    known_lines.append(
                        f"NOTE: open finding {e['id']} of {cid} no longer reproduces on its witness"
                    )
            if rr["new"]:
                violations.append((rr["spec"], rr["new"], "replay:" + rr["file"]))

    # 2. generated cases
    agg = dict(
        calls=0, evals=replay_evals, classes={}, refusals={}, crashes={}, filtered=0,
        inconclusive=0, excluded_known={}, timed_out_calls=0, notes={},
    )
    nontrivial = set(replay_nontrivial)
    samples = []
    for r in results:
        if r.get("error"):
            errors.append(f"worker {r['widx']}: {r['error']}")
            continue
        for k in ("calls", "evals", "filtered", "inconclusive", "timed_out_calls"):
            agg[k] += r[k]
        agg["enumerated"] = agg.get("enumerated", 0) + r.get("enumerated", 0)
        agg["enumerated_total"] = r.get("enumerated_total", 0)
        for k in ("classes", "refusals", "crashes", "excluded_known", "notes"):
            for kk, vv in r[k].items():
                agg[k][kk] = agg[k].get(kk, 0) + vv
        nontrivial.update(r["nontrivial"])
        if r["samples"] and len(samples) < 6:
            samples.append(r["samples"][0])
            if len(r["samples"]) > 3 and len(samples) < 6:
                samples.append(r["samples"][-1])
        if "failure" in r:
            violations.append((r["failure"]["spec"], r["failure"]["violations"], f"worker{r['widx']}"))

    # 3. bucket + write replay files
    buckets = {}
    for spec, vs, origin in violations:
        k = bucket_key(vs[0])
        size = core.spec_size(spec)
        if k not in buckets or size < buckets[k][0]:
            buckets[k] = (size, spec, vs, origin)
    out_lines = []
    out_dir = os.environ.get("VERIF_OUT", core.VERIF_DIR)  # self-tests redirect their output
    os.makedirs(os.path.join(out_dir, "replays", cid), exist_ok=True)
    for k, (size, spec, vs, origin) in sorted(buckets.items(), key=lambda kv: str(kv[0])):
        path = os.path.join(out_dir, "replays", cid, core.h(spec) + ".json")
        with open(path, "w") as fh:
            json.dump(
                {"property": cid, "tier": tier, "seed": seed, "origin": origin,
                 "violations": vs, "spec": spec}, fh, indent=1, default=core._default)
        for v in vs[:3]:
            out_lines.append(f"  violation clause={v['clause']}: {str(v['msg'])[:500]}")
        out_lines.append(f"VIOLATION property={cid} replay={path}")

    for path, first in fuzz["violations"]:
        data = json.load(open(path))
        k = bucket_key(data["violations"][0])
        if k not in buckets:
            buckets[k] = (core.spec_size(data["spec"]), data["spec"], data["violations"], "atheris")
            out_lines.append(f"  violation clause={first['clause']}: {str(first['msg'])[:500]}")
            out_lines.append(f"VIOLATION property={cid} replay={path}")
    wall = time.time() - t0
    # 4. evidence
    ev = {
        "property_id": cid,
        "tier": tier,
        "seed": seed,
        "level": "exploration",
        "coverage": {
            "evaluations": int(agg["evals"]),
            "distinct_nontrivial": len(nontrivial),
            "rule": meta.RULE,
            "samples": [core.abbreviate(s) for s in samples] or ["(no case generated)"],
            "generated_cases": agg["calls"],
            "class_histogram": agg["classes"],
            "refusals": agg["refusals"],
            "internal_crashes": agg["crashes"],
            "filtered": agg["filtered"],
            "inconclusive": agg["inconclusive"],
            "excluded_known": agg["excluded_known"],
            "cases_skipped_by_wall_guard": agg["timed_out_calls"],
            "replayed": replayed,
            "workers": nworkers,
            "worker_processes_recycled_for_memory": recycled,
            "per_worker_budget": budget,
            "notes": agg["notes"],
            "exhaustive": False,
            "exhaustive_subrun": {"enumerated": agg.get("enumerated", 0), "of": agg.get("enumerated_total", 0),
                                  "complete": bool(agg.get("enumerated_total", 0)) and agg.get("enumerated", 0) == agg.get("enumerated_total", 0)},
        },
        "assumptions": list(meta.ASSUMPTIONS),
        "wall_s": round(wall, 2),
        "violations": len(buckets),
    }
    if fuzz["engine"]:
        ev["coverage"]["second_engine"] = {k: v for k, v in fuzz.items() if k != "violations"}
        ev["coverage"]["evaluations"] += int(fuzz["judged"])
    if hasattr(meta, "extra_evidence"):
        ev["coverage"].update(meta.extra_evidence(agg))
    os.makedirs(os.path.join(out_dir, "evidence"), exist_ok=True)
    if not errors:
        with open(os.path.join(out_dir, "evidence", f"{cid}.json"), "w") as fh:
            json.dump(ev, fh, indent=1, default=core._default)

    for line in known_lines:
        print(line)
    print(
        f"[{cid}/{tier}/seed={seed}] cases={agg['calls']} evals={agg['evals']} "
        f"distinct_nontrivial={len(nontrivial)} refusals={sum(agg['refusals'].values())} "
        f"excluded_known={agg['excluded_known']} replayed={replayed} wall={wall:.1f}s"
    )
    if errors:
        for e in errors[:4]:
            print("HARNESS-ERROR", e)
        return 2
    for line in out_lines:
        print(line)
    if buckets:
        return 1
    if ev["coverage"]["evaluations"] < 1 or len(nontrivial) < 2:
        print(f"HARNESS-ERROR property={cid}: vacuous run (evaluations/distinct_nontrivial too small)")
        return 2
    return 0


if __name__ == "__main__":
    sys.exit(main())
