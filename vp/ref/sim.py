"""R3 - table-driven reference simulator (NumPy float64).

`extract(module)` reads only what a user can read: .nodes, .edges, .comb_parents, the
mechanisms' class and name, .externals / .external_inds. `simulate(...)` then integrates
the model with R1 (dense cable) + R2 (published kinetics) following the documented scheme
of one step:

  1. stimulus sample k -> current on its target compartments
  2. every gate advances by the exact exponential update at the OLD voltage
  3. membrane currents with the NEW gates, linearised in v by the secant (Delta = 1e-3 mV)
  4. synaptic states advance from the OLD pre-synaptic voltage; synaptic currents (nA) with
     the new states, linearised by the same secant (pre and post voltage shifted together,
     as the library does)
  5. clamps of non-voltage states
  6. voltage solve (bwd_euler / crank_nicolson / fwd_euler) on the dense system
  7. voltage clamps
"""
from __future__ import annotations

import numpy as np

from vp.ref import mech as R2
from vp.ref.cable import Cable

DELTA = 1e-3


def extract(module):
    """Plain-data description of a jaxley module, from public attributes only."""
    b = module.base
    nodes = b.nodes
    N = len(nodes)
    bidx = nodes["global_branch_index"].to_numpy().astype(int)
    nb = int(bidx.max()) + 1
    ncomps = np.bincount(bidx, minlength=nb).tolist()
    t = {
        "N": N,
        "parents": [int(p) for p in np.asarray(b.comb_parents)],
        "ncomps": ncomps,
        "nodes": {c: nodes[c].to_numpy() for c in nodes.columns},
        "channels": [(type(c).__name__, c._name) for c in b.channels],
        "synapses": [(type(s).__name__, s._name) for s in b.synapses],
        "edges": {c: b.edges[c].to_numpy() for c in b.edges.columns} if len(b.edges) else {},
        "n_edges": len(b.edges),
        "externals": {k: np.asarray(v, float) for k, v in b.externals.items()},
        "external_inds": {k: np.asarray(v).astype(int) for k, v in b.external_inds.items()},
    }
    return t


def _chan_params(t, cls, name, rows):
    table = R2.CHANNELS[cls]
    p = {}
    for k in table["params"]:
        col = k if k in table["globals"] else f"{name}_{k}"
        p[k] = t["nodes"][col][rows].astype(float)
    return p


def _gate_rates(cls, g, v, p, n6_saturated=False):
    fn = R2.CHANNELS[cls]["gates"][g]
    if cls == "CaT" and n6_saturated:
        kind, a, b = fn(v, p, saturate_at=20.0)
    else:
        kind, a, b = fn(v, p)
    return R2.steady_tau(kind, a, b)


def initial_state(t):
    st = {"v": t["nodes"]["v"].astype(float).copy()}
    for cls, name in t["channels"]:
        for g in R2.CHANNELS[cls]["states"]:
            st[f"{name}_{g}"] = t["nodes"][f"{name}_{g}"].astype(float).copy()
    for cls, name in t["synapses"]:
        for g in R2.SYNAPSES[cls]["states"]:
            st[f"{name}_{g}"] = t["edges"][f"{name}_{g}"].astype(float).copy()
    return st


def _membrane(t, st, v, area):
    """Linearised membrane currents with the gates in `st` at voltage v.
    Returns gm (mS), const (uA, inward), and the current densities by current name."""
    N = t["N"]
    gm = np.zeros(N)
    const = np.zeros(N)
    cur = {}
    for cls, name in t["channels"]:
        table = R2.CHANNELS[cls]
        rows = np.flatnonzero(t["nodes"][name].astype(bool))
        if len(rows) == 0:
            cur.setdefault(table["current_name"].format(name=name), np.zeros(N))
            continue
        p = _chan_params(t, cls, name, rows)
        s = {g: st[f"{name}_{g}"][rows] for g in table["states"]}
        i0 = table["current"](s, v[rows], p)
        i1 = table["current"](s, v[rows] + DELTA, p)
        glin = (i1 - i0) / DELTA
        c0 = i0 - glin * v[rows]
        gm[rows] += glin * area[rows] * 1e3
        const[rows] += -c0 * area[rows] * 1e3
        cn = table["current_name"].format(name=name)
        cur.setdefault(cn, np.zeros(N))
        cur[cn][rows] += i0
    return gm, const, cur


def _synaptic(t, st, v):
    N = t["N"]
    gm = np.zeros(N)
    const = np.zeros(N)
    cur = {}
    if not t["n_edges"]:
        return gm, const, cur
    types = t["edges"]["type"]
    pre = t["edges"]["pre_global_comp_index"].astype(int)
    post = t["edges"]["post_global_comp_index"].astype(int)
    for cls, name in t["synapses"]:
        e = np.flatnonzero(types == name)
        cur[f"i_{name}"] = np.full(t["n_edges"], np.nan)
        if len(e) == 0:
            continue
        p = {k: t["edges"][f"{name}_{k}"][e].astype(float) for k in R2.SYNAPSES[cls]["params"]}
        s = {g: st[f"{name}_{g}"][e] for g in R2.SYNAPSES[cls]["states"]}
        i0 = R2.syn_current(cls, s, v[pre[e]], v[post[e]], p)
        i1 = R2.syn_current(cls, s, v[pre[e]] + DELTA, v[post[e]] + DELTA, p)
        glin = (i1 - i0) / DELTA  # uS
        c0 = i0 - glin * v[post[e]]  # nA
        np.add.at(gm, post[e], glin * 1e-3)
        np.add.at(const, post[e], -c0 * 1e-3)
        cur[f"i_{name}"][e] = i0
    return gm, const, cur


def simulate(t, nsteps, dt, solver="bwd_euler", externals=None, external_inds=None, n6_saturated=False,
             state0=None):
    """Returns dict name -> array (n, nsteps+1): 'v', every channel/synaptic state (edge arrays
    are indexed by GLOBAL edge index, NaN where the edge has another type), and the currents."""
    N = t["N"]
    nd = t["nodes"]
    cab = Cable(t["parents"], t["ncomps"], nd["radius"].astype(float), nd["length"].astype(float),
                nd["axial_resistivity"].astype(float), nd["capacitance"].astype(float))
    area = cab.area
    externals = t["externals"] if externals is None else externals
    external_inds = t["external_inds"] if external_inds is None else external_inds
    st = initial_state(t) if state0 is None else {k: np.array(v, float) for k, v in state0.items()}
    v = st["v"]
    hist = {k: [np.array(val)] for k, val in st.items()}
    _, _, cur = _membrane(t, st, v, area)
    _, _, scur = _synaptic(t, st, v)
    for k, val in {**cur, **scur}.items():
        hist[k] = [np.array(val)]
    types = t["edges"]["type"] if t["n_edges"] else None
    pre = t["edges"]["pre_global_comp_index"].astype(int) if t["n_edges"] else None
    for k in range(nsteps):
        v = st["v"]
        inj = np.zeros(N)
        if "i" in externals:
            np.add.at(inj, external_inds["i"], externals["i"][:, k] * 1e-3)
        # 2. gates at the old voltage
        for cls, name in t["channels"]:
            table = R2.CHANNELS[cls]
            rows = np.flatnonzero(nd[name].astype(bool))
            if len(rows) == 0:
                continue
            p = _chan_params(t, cls, name, rows)
            for g in table["states"]:
                x_inf, tau = _gate_rates(cls, g, v[rows], p, n6_saturated)
                key = f"{name}_{g}"
                st[key] = st[key].copy()
                st[key][rows] = R2.exp_update(st[key][rows], dt, x_inf, tau)
        # 3. membrane currents
        gm, const, cur = _membrane(t, st, v, area)
        # 4. synapses
        for cls, name in t["synapses"]:
            e = np.flatnonzero(types == name)
            if len(e) == 0:
                continue
            p = {kk: t["edges"][f"{name}_{kk}"][e].astype(float) for kk in R2.SYNAPSES[cls]["params"]}
            s = {g: st[f"{name}_{g}"][e] for g in R2.SYNAPSES[cls]["states"]}
            upd = R2.syn_update(cls, s, dt, v[pre[e]], p)
            for g, val in upd.items():
                key = f"{name}_{g}"
                st[key] = st[key].copy()
                st[key][e] = val
        sgm, sconst, scur = _synaptic(t, st, v)
        # 5. clamps of non-voltage states
        for key in externals:
            if key not in ("i", "v"):
                st[key] = st[key].copy()
                st[key][external_inds[key]] = externals[key][:, k]
        # 6. voltage
        vnew = cab.step(solver, dt, v, gm + sgm, const + sconst + inj)
        # 7. voltage clamp
        if "v" in externals:
            vnew = vnew.copy()
            vnew[external_inds["v"]] = externals["v"][:, k]
        st["v"] = vnew
        for key, val in st.items():
            hist[key].append(np.array(val))
        for key, val in {**cur, **scur}.items():
            hist[key].append(np.array(val))
    return {k: np.stack(val, axis=1) for k, val in hist.items()}


def recordings(t_or_module, hist, rec_table=None):
    """Rows of the output matrix that `integrate` should return, from the recordings table
    (rec_index, state), in table order."""
    rec = rec_table
    out = []
    for idx, state in zip(rec["rec_index"], rec["state"]):
        out.append(hist[state][int(idx)])
    return np.asarray(out)
