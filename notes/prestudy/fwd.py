import sys; sys.path.insert(0,'/tmp/scratch/exp')
import warnings; warnings.filterwarnings('ignore')
from ref import *
rng = np.random.default_rng(1)
def fwd_ref(nodes, parents, ncomps, dt):
    # explicit Euler using the same assembly: v' = v + dt*C^-1(-G v - Gm v + I) ; only unbranched
    import numpy as np
    r = nodes['radius'].to_numpy(float); l = nodes['length'].to_numpy(float)
    ra = nodes['axial_resistivity'].to_numpy(float); cm = nodes['capacitance'].to_numpy(float)
    g = nodes['Leak_gLeak'].to_numpy(float); e = nodes['Leak_eLeak'].to_numpy(float)
    v = nodes['v'].to_numpy(float); N=len(v)
    area = 2*np.pi*r*l*1e-8; C = cm*area; Gm = g*area*1e3
    Rh = ra*(l/2*1e-4)/(np.pi*r**2*1e-8)
    cums = np.concatenate([[0], np.cumsum(ncomps)])
    G = np.zeros((N,N))
    for b in range(len(ncomps)):
        for k in range(cums[b], cums[b+1]-1):
            c = 1e3/(Rh[k]+Rh[k+1]); G[k,k]+=c; G[k+1,k+1]+=c; G[k,k+1]-=c; G[k+1,k]-=c
    return v + dt*(-G@v - Gm*v + Gm*e)/C

for ncs in [[3],[2,2],[2,4],[1,3],[4,2,3]]:
    cells = [build_cell([-1],[n],rng) for n in ncs]
    if len(cells)==1:
        m = cells[0]
    else:
        m = jx.Network(cells)
    m.delete_recordings(); m.record('v', verbose=False)
    ref = fwd_ref(m.nodes, None, ncs, 0.001)
    try:
        out = np.asarray(jx.integrate(m, t_max=0.001, delta_t=0.001, solver='fwd_euler'))
        print(ncs, 'maxerr', np.abs(out[:,1]-ref).max())
    except Exception as ex:
        print(ncs, 'ERR', type(ex).__name__, str(ex)[:100])
