#!/bin/sh
# run the thorough tier of the listed checks sequentially: tools/thorough_some.sh <seed> C01 C09 ...
SEED=$1; shift
for id in "$@"; do
  s=$(date +%s)
  VERIF_SEED=$SEED /venv/bin/python -m vp.run $id --tier thorough > thorough_$id.log 2>&1
  rc=$?
  echo "$id rc=$rc $(( $(date +%s) - s ))s $(grep -c '^VIOLATION' thorough_$id.log) violations; $(grep '^\[' thorough_$id.log | tail -1 | cut -c1-170)"
done
