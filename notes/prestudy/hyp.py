import time, json
from hypothesis import given, settings, seed, strategies as st, HealthCheck, Phase
class Budget:
    def __init__(s, secs): s.secs=secs; s.t0=None; s.best=None; s.best_key=None; s.n=0; s.after=0
B = Budget(3.0)
def size(x): return (len(x), sum(x))
def check(xs):
    time.sleep(0.4)           # expensive oracle
    assert not (len(xs) >= 3 and sum(xs) > 100)
@seed(7)
@settings(database=None, deadline=None, max_examples=300, suppress_health_check=list(HealthCheck), report_multiple_bugs=False)
@given(st.lists(st.integers(0,1000), max_size=30))
def t(xs):
    B.n += 1
    key = json.dumps(xs)
    expired = B.t0 is not None and time.time()-B.t0 > B.secs
    if expired:
        B.after += 1
        if key == B.best_key: raise AssertionError('remembered failure')
        return
    try:
        check(xs)
    except AssertionError:
        if B.t0 is None: B.t0 = time.time()
        if B.best is None or size(xs) < size(B.best): B.best=list(xs); B.best_key=key
        raise
t0=time.time()
try:
    t()
except BaseException as e:
    print('hypothesis raised', type(e).__name__, str(e)[:200].replace('\n',' | '))
print('calls', B.n, 'after-expiry calls', B.after, 'best', B.best, 'wall', round(time.time()-t0,1))
