"""python tools/mkbenign.py <name> <file> <old> <new>  -> benign/<name>.patch (a behaviour-preserving change)"""
import difflib, sys, os
name, rel, old, new = sys.argv[1:5]
src = open(os.path.join("/repo", rel)).read()
assert old in src, f"pattern not found in {rel}: {old!r}"
dst = src.replace(old, new, 1)
out = os.path.join("/verif", "benign", name + ".patch")
open(out, "w").writelines(difflib.unified_diff(src.splitlines(True), dst.splitlines(True), "a/" + rel, "b/" + rel))
print("wrote", out)
