"""R4 - closed forms of linear cable theory (NumPy float64).

Units: um, ohm cm, S/cm^2, uF/cm^2, nA, mV, ms.
"""
import numpy as np


def sealed_cable_green(x, x0, L, lam, radius_um, ra_ohm_cm, i_nA):
    """Steady-state depolarisation (mV) at positions x (um) of a sealed-end cable of length L (um),
    length constant lam (um), for a current i_nA injected at x0."""
    x = np.asarray(x, float)
    xl = np.minimum(x, x0)
    xg = np.maximum(x, x0)
    r_axial = ra_ohm_cm / (np.pi * (radius_um * 1e-4) ** 2)  # ohm / cm
    r_inf = r_axial * (lam * 1e-4)  # ohm
    return i_nA * 1e-9 * r_inf * np.cosh(xl / lam) * np.cosh((L - xg) / lam) / np.sinh(L / lam) * 1e3


def discrete_mode_decay(t, tau, lam, L, n, k=1):
    """Decay factor of the k-th cosine eigenmode of the n-compartment discretisation of a sealed cable
    (continuous time): exp(-t (1 + mu)/tau), mu = (2/h^2)(1 - cos(k pi h / L)) lam^2."""
    h = L / n
    mu = (2.0 / h**2) * (1.0 - np.cos(k * np.pi * h / L)) * lam**2
    return np.exp(-t * (1.0 + mu) / tau)
