"""C16 - SWC import preserves the traced morphology."""
from __future__ import annotations

import os
import tempfile

import numpy as np
from hypothesis import strategies as st

from vp.gen.morph import fl, log_uniform
from vp import core
from vp.gen import swc as gs
from vp.ref import swcmodel as R6

ID = "C16"
REPO_FILES = ["morph_minimal.swc", "morph_soma_both_ends.swc", "morph_250.swc", "morph_250_single_point_soma.swc"]
RULE = (
    "Hypothesis draws a rooted SWC point tree written depth-first with consecutive ids (single- or multi-point soma, 1-4 "
    "neurites attached to any soma point, runs of 1-4 points, forks of 2-3 children down to depth 2, type changes along a path, "
    "zero-length and axis-aligned segments, radii log-uniform in [0.05,10]) or one of four repository files, ncomp in 1..8, "
    "optional min_radius and max_branch_len. Oracle R6 (section model): sections are matched to jaxley's branches through the "
    "traced coordinates; number of branches, parent relation, branch lengths, types and type groups (a partition of all "
    "compartments), compartment radii at the compartment centres, independence of total length and connectivity from ncomp; with "
    "max_branch_len a validity predicate (pieces are contiguous point runs that chain end-to-start, cover the section, sum to "
    "its length). Most cases stop at swc_to_jaxley (1 ms), a fraction goes through read_swc. A second engine, atheris (libFuzzer), "
    "mutates the byte string from which the same strategy decodes its spec, with coverage feedback from the reader's functions and "
    "the same oracle inside the target (4 x 1500 executions quick, 16 x 40000 thorough). Non-trivial: a fork away from the "
    "root and >=2 neurite types; distinct = hash(points, options)."
)
ASSUMPTIONS = [
    "section conventions as stated in the property, the read_swc docstring and tests/test_swc.py (see vp/ref/swcmodel.py)",
    "coordinates of different sections are distinct (cases where two sections have identical traced coordinates are filtered)",
    "lengths 1e-9 relative, radii 1e-6 relative (the reader floors zero-length segments at 1e-8 um for the interpolation)",
    "with max_branch_len a piece may exceed the limit only if the section has too few traced points to be cut once more into pieces of >=2 points, "
    "or was cut into more than 10 pieces (documented warning); a zero-length piece counts 1 um like a zero-length section",
]
TECHNIQUE = "property-based testing (Hypothesis) with a reference section model, plus coverage-guided fuzzing (atheris/libFuzzer) through the same strategy and oracle; metamorphic over ncomp"
LEVEL_TEXT = (
    "Generated SWC trees (and the repository's files) are read and compared with an independent section model: branches, parents, "
    "lengths, radii at compartment centres, type groups, and invariance under ncomp. Search, not proof."
)


def extra_engine_cmds(tier, seed):
    """Second engine: coverage-guided fuzzing of the reader with atheris (oracle inside the target)."""
    import importlib.util
    import sys

    deps = os.path.join(core.VERIF_DIR, ".deps")
    if deps not in sys.path:
        sys.path.append(deps)
    if importlib.util.find_spec("atheris") is None:
        return []
    n, runs, secs = (4, 1500, 60) if tier == "quick" else (16, 40000, 900)
    return [["/venv/bin/python", "-m", "vp.fuzz.swc_atheris", "--runs", str(runs), "--seed", str(1 + (seed * 131 + i) % 100000), "--max-seconds", str(secs)] for i in range(n)]


def budget(tier):
    return 100 if tier == "quick" else 2000


@st.composite
def _spec(draw, tier):
    use_file = draw(st.integers(0, 19)) == 0
    spec = {"file": draw(st.sampled_from(REPO_FILES)) if use_file else None,
            "points": None if use_file else draw(gs.swc_points()),
            "ncomp": draw(st.integers(1, 8)), "ncomp2": draw(st.integers(1, 8)),
            "min_radius": draw(st.one_of(st.none(), st.none(), log_uniform(0.05, 2.0))),
            "max_branch_len": draw(st.one_of(st.none(), st.none(), st.none(), log_uniform(2.0, 200.0))),
            "level": draw(st.sampled_from(["swc_to_jaxley"] * 5 + ["read_swc"]))}
    return spec


def strategy(tier):
    return _spec(tier)


def size(spec):
    return (len(spec["points"] or []) + (10**6 if spec["file"] else 0), core.spec_size(spec))


def _match(model, coords):
    """model section -> branch index by exact equality of the traced coordinates."""
    match, used = {}, set()
    for i, s in enumerate(model):
        hits = [b for b, c in enumerate(coords) if b not in used and np.asarray(c).shape == s["coords"].shape and np.array_equal(np.asarray(c, float), s["coords"])]
        if not hits:
            return None, i
        match[i] = hits[0]
        used.add(hits[0])
    return match, None


def judge(spec, tier="quick"):
    import jaxley as jx
    from jaxley.io.swc import swc_to_jaxley

    out = core.Outcome()
    if spec["file"]:
        path = os.path.join(core.REPO_DIR, "tests", "swc_files", spec["file"])
        pts = gs.parse_text(open(path).read())
        tmp = None
    else:
        pts = spec["points"]
        tmp = tempfile.NamedTemporaryFile("w", suffix=".swc", delete=False, dir=os.environ.get("VERIF_SCRATCH", None))
        tmp.write(gs.to_text(pts))
        tmp.close()
        path = tmp.name
    try:
        return _judge(spec, pts, path, out, jx, swc_to_jaxley)
    finally:
        if tmp is not None:
            os.unlink(path)


def _judge(spec, pts, path, out, jx, swc_to_jaxley):
    model = R6.sections(pts)
    # sections with identical traced coordinates cannot be told apart through xyzr
    keys = [s["coords"].tobytes() + bytes([len(s["coords"]) % 250]) for s in model]
    if len(set(keys)) != len(keys):
        out.filtered += 1
        return out
    mbl = spec["max_branch_len"]
    if mbl is not None and len({(p[2], p[3], p[4], p[5]) for p in pts}) != len(pts):
        out.filtered += 1  # pieces are matched through traced coordinates: coincident points are ambiguous
        return out
    k = int(spec["ncomp"])
    typ = {p[0]: p[1] for p in pts}
    ch = {}
    for p in pts:
        ch.setdefault(p[6], []).append(p[0])
    fork_away = any(len(v) >= 2 for pid, v in ch.items() if pid not in (-1, 1))
    ntypes = len({p[1] for p in pts if p[1] != 1})
    sps = typ[1] == 1 and (len(pts) < 2 or typ[2] != 1)
    for name, flag in (("single-point soma", sps), ("fork at a soma point", any(len(v) >= 2 for pid, v in ch.items() if pid != -1 and typ[pid] == 1)),
                       ("type change without fork", any(len(v) == 1 and typ[v[0]] != typ[pid] for pid, v in ch.items() if pid != -1)),
                       ("zero-length section", any(float(s["segments"].sum()) == 0 for s in model)),
                       ("dummy root", any(s.get("dummy") for s in model)), ("max_branch_len", mbl is not None),
                       ("repository file", bool(spec["file"])), ("level:" + spec["level"], True)):
        if flag:
            out.classes.append(name)
    if fork_away and ntypes >= 2:
        out.nontrivial_keys.append(core.h([pts if not spec["file"] else spec["file"], k, spec["min_radius"], mbl, spec["level"]]))
    res, err = core.call(swc_to_jaxley, path, max_branch_len=mbl)
    if err:
        out.violate("raises", f"swc_to_jaxley(max_branch_len={mbl}) raised {err.short()}; points={_fmt(pts)}", etype=err.etype, frame=err.frame)
        return out
    parents, pathlengths, radius_fns, types, coords = res
    parents = [int(p) for p in parents]
    out.evals += 1
    total_model = sum(s["length"] for s in model)
    if mbl is None:
        if len(parents) != len(model):
            out.violate("branches", f"{len(parents)} branches, the file has {len(model)} sections ({[s['points'] for s in model]}); points={_fmt(pts)}")
            return out
        match, miss = _match(model, coords)
        if match is None:
            out.violate("branches", f"no branch traces section {model[miss]['points']} (type {model[miss]['type']}); points={_fmt(pts)}")
            return out
        for i, s in enumerate(model):
            b = match[i]
            want_parent = -1 if s["parent"] < 0 else match[s["parent"]]
            if parents[b] != want_parent:
                out.violate("parents", f"section {s['points']}: parent branch {parents[b]}, expected {want_parent} (section {model[s['parent']]['points'] if s['parent'] >= 0 else None}); points={_fmt(pts)}")
                return out
            if not np.isclose(float(pathlengths[b]), s["length"], rtol=1e-9, atol=1e-12):
                out.violate("length", f"section {s['points']}: branch length {float(pathlengths[b])!r}, traced path length {s['length']!r}; points={_fmt(pts)}")
                return out
            if int(types[b]) != int(s["type"]):
                out.violate("type", f"section {s['points']} (points of type {s['type']}) is labelled type {int(types[b])}; points={_fmt(pts)}")
                return out
            locs = (np.arange(k) + 0.5) / k
            got_r = np.asarray(radius_fns[b](locs), float)
            want_r = R6.radius_at(s, locs)
            alt_r = R6.radius_at(s, locs, alt=True)
            if not (np.allclose(got_r, want_r, rtol=1e-6, atol=1e-9) or np.allclose(got_r, alt_r, rtol=1e-6, atol=1e-9)):
                out.violate("radius", f"section {s['points']}: radius at centres {got_r.tolist()}, interpolation of traced radii {want_r.tolist()}; points={_fmt(pts)}")
                return out
    else:
        bad = _check_pieces(model, parents, pathlengths, coords, types, mbl)
        if bad:
            out.violate("max_branch_len", f"max_branch_len={mbl}: {bad}; points={_fmt(pts)}")
            return out
    if spec["level"] != "read_swc":
        return out
    # ---- read_swc --------------------------------------------------------------------
    mr = spec["min_radius"]
    cell, err = core.call(jx.read_swc, path, ncomp=k, max_branch_len=mbl, min_radius=mr)
    if err:
        if mr is None and err.etype == "AssertionError" and "Radius 0.0" in err.msg:
            out.refusals.append("radius 0 without min_radius")
            return out
        out.violate("raises", f"read_swc(ncomp={k}, min_radius={mr}, max_branch_len={mbl}) raised {err.short()}; points={_fmt(pts)}", etype=err.etype, frame=err.frame)
        return out
    out.evals += 1
    nodes = cell.nodes
    nb = len(parents)
    if len(nodes) != nb * k or [int(p) for p in np.asarray(cell.comb_parents)] != parents:
        out.violate("read_swc-structure", f"read_swc: {len(nodes)} compartments / parents {np.asarray(cell.comb_parents).tolist()}, expected {nb * k} / {parents}")
        return out
    lengths = nodes["length"].to_numpy(float).reshape(nb, k)
    radii = nodes["radius"].to_numpy(float).reshape(nb, k)
    if not np.allclose(lengths.sum(axis=1), np.asarray(pathlengths, float), rtol=1e-9) or not np.allclose(lengths, lengths[:, :1], rtol=1e-12):
        out.violate("length", f"read_swc: compartment lengths {lengths.tolist()} do not split the branch lengths {np.asarray(pathlengths).tolist()} equally")
        return out
    if mbl is None:
        locs = (np.arange(k) + 0.5) / k
        for i, s in enumerate(model):
            want = R6.radius_at(s, locs, mr)
            alt = R6.radius_at(s, locs, mr, alt=True)
            if not (np.allclose(radii[match[i]], want, rtol=1e-6, atol=1e-9) or np.allclose(radii[match[i]], alt, rtol=1e-6, atol=1e-9)):
                out.violate("radius", f"read_swc(ncomp={k}, min_radius={mr}): section {s['points']} radii {radii[match[i]].tolist()}, expected {want.tolist()}; points={_fmt(pts)}")
                return out
        # groups partition the compartments by type
        want_groups = {}
        for i, s in enumerate(model):
            want_groups.setdefault(R6.group_name(s["type"]), []).extend(range(match[i] * k, match[i] * k + k))
        got_groups = {g: sorted(int(x) for x in v) for g, v in cell.groups.items()}
        if {g: sorted(v) for g, v in want_groups.items()} != got_groups:
            out.violate("groups", f"type groups {got_groups}, expected {({g: sorted(v) for g, v in want_groups.items()})}; points={_fmt(pts)}")
            return out
    if mr is not None and radii.min() < mr * (1 - 1e-12):
        out.violate("radius", f"min_radius={mr} but a compartment has radius {radii.min()}")
        return out
    # ---- independence from ncomp ------------------------------------------------------
    k2 = int(spec["ncomp2"])
    if k2 != k:
        cell2, err = core.call(jx.read_swc, path, ncomp=k2, max_branch_len=mbl, min_radius=mr)
        if err:
            out.violate("raises", f"read_swc(ncomp={k2}) raised {err.short()}", etype=err.etype, frame=err.frame)
            return out
        out.evals += 1
        t1, t2 = float(nodes["length"].sum()), float(cell2.nodes["length"].sum())
        if not np.isclose(t1, t2, rtol=1e-9) or np.asarray(cell2.comb_parents).tolist() != np.asarray(cell.comb_parents).tolist():
            out.violate("ncomp-dependence", f"total length {t1} (ncomp={k}) vs {t2} (ncomp={k2}); parents {np.asarray(cell.comb_parents).tolist()} vs {np.asarray(cell2.comb_parents).tolist()}")
    if mbl is None and not np.isclose(float(nodes["length"].sum()), total_model, rtol=1e-9):
        out.violate("length", f"total length {float(nodes['length'].sum())}, traced {total_model}")
    return out


def _check_pieces(model, parents, pathlengths, coords, types, mbl):
    """Validity predicate for max_branch_len: returns a description of the first problem or None."""
    coords = [np.asarray(c, float) for c in coords]
    used = set()
    last_piece = {}
    first_piece = {}
    for i, s in enumerate(model):
        sc = s["coords"]
        pieces = []
        for b, c in enumerate(coords):
            if b in used or len(c) > len(sc):
                continue
            for start in range(len(sc) - len(c) + 1):
                if np.array_equal(sc[start:start + len(c)], c):
                    pieces.append((start, start + len(c) - 1, b))
                    break
        if len(sc) == 1:
            pieces = [p for p in pieces if p[0] == 0][:1]
        else:
            pieces = sorted(p for p in pieces if p[1] > p[0])
        # choose a chain covering the section
        chain, pos = [], 0
        for p in pieces:
            if p[0] == pos and (p[1] > pos or len(sc) == 1):
                chain.append(p)
                pos = p[1]
        if not chain or (len(sc) > 1 and pos != len(sc) - 1):
            return f"the branches do not cover section {s['points']} with pieces that chain end-to-start (found {[(a, b) for a, b, _ in pieces]})"
        for _, _, b in chain:
            used.add(b)
        for a, e, b in chain:
            # a piece's length is the traced length of its run of points (a zero-length piece is
            # set to 1 um like a zero-length section)
            want = float(s["segments"][a:e].sum()) if len(sc) > 1 else s["length"]
            want = want if want > 0 else 1.0
            if not np.isclose(float(pathlengths[b]), want, rtol=1e-9, atol=1e-12):
                return f"piece points[{a}:{e}] of section {s['points']} has length {float(pathlengths[b])}, its traced run {want}"
        for a, e, b in chain:
            # the reader splits into equal numbers of points; it could have split once more only if
            # every piece would still keep two points
            could_split = len(sc) // (len(chain) + 1) >= 2 and len(chain) <= 10
            if float(pathlengths[b]) > mbl * (1 + 1e-9) and could_split:
                return f"piece points[{a}:{e}] of section {s['points']} has length {float(pathlengths[b])} > max_branch_len although the section could be split once more"
            if int(types[b]) != int(s["type"]):
                return f"piece of section {s['points']} labelled type {int(types[b])}, expected {s['type']}"
        first_piece[i], last_piece[i] = chain[0][2], chain[-1][2]
        for (a1, e1, b1), (a2, e2, b2) in zip(chain[:-1], chain[1:]):
            if parents[b2] != b1:
                return f"piece {b2} of section {s['points']} has parent {parents[b2]}, expected the previous piece {b1}"
    if len(used) != len(coords):
        return f"{len(coords) - len(used)} branches do not correspond to any piece of a section"
    for i, s in enumerate(model):
        want = -1 if s["parent"] < 0 else last_piece[s["parent"]]
        if parents[first_piece[i]] != want:
            return f"first piece of section {s['points']} has parent {parents[first_piece[i]]}, expected {want}"
    return None


def _fmt(pts):
    if len(pts) > 40:
        return f"<{len(pts)} points>"
    return [[p[0], p[1], round(p[2], 3), round(p[3], 3), round(p[4], 3), round(p[5], 3), p[6]] for p in pts]


PREDICATES = {}
